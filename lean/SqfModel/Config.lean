import SqfModel.Compile
import SqfModel.Render
import SqfModel.Generated.Diag
/-!
# Model of the config tree (`src/runtime/confighost.h`), of `apply_to_confighost`
(`src/parser/config/config_parser.cpp`) and of the config operators (`src/operators/ops_config.cpp`)

The container table is a list indexed by container id; `none` stands for `config::invalid_id`.
Every loop of the implementation that follows parent ids (`lookup_in_inherited`, `lookup_in_logical`,
the cycle test of `append_or_replace`, `configHierarchy`) is a fuel-indexed function here; that the
loops end is a theorem about the reachable tables (`Props/C15.lean`), not an assumption.
-/
namespace Sqf.Cfg
open Sqf

/-- a config value: `none` for a class (empty `value`), scalars, strings and nested arrays -/
inductive CVal where
  | none
  | num (d : Dec)
  | nan
  | str (s : List B)
  | arr (xs : List CVal)
  deriving Repr, Inhabited

/-- `config::container` -/
structure Cont where
  name : List B
  vec : List Nat := []                          -- m_children_vec: own entries in declaration order
  map : List (List B × Option Nat) := []        -- m_children: name ↦ id (or the deleted marker)
  value : CVal := .none
  logical : Option Nat := none                  -- id_parent_logical
  inherited : Option Nat := none                -- id_parent_inherited
  deriving Inhabited

/-- `confighost`: the master register of containers; container 0 is the root `config/bin` -/
structure Host where
  conts : List Cont := [{ name := n!"config/bin" }]
  deriving Inhabited

def Host.size (h : Host) : Nat := h.conts.length
def Host.get (h : Host) (i : Nat) : Cont := h.conts.getD i { name := [] }
def Host.set (h : Host) (i : Nat) (c : Cont) : Host := { conts := h.conts.set i c }

/-- `m_children.find(key)`: outer `none` = no entry, `some none` = deleted marker -/
def findKey : List (List B × Option Nat) → List B → Option (Option Nat)
  | [], _ => none
  | (k, v) :: rest, key => if k = key then some v else findKey rest key

def setKey : List (List B × Option Nat) → List B → Option Nat → List (List B × Option Nat)
  | [], key, v => [(key, v)]
  | (k, w) :: rest, key, v => if k = key then (k, v) :: rest else (k, w) :: setKey rest key v

/-- the own-entry vector after `push_back`: a new (or formerly deleted) key is appended, a deleted key
    is removed, a key bound to another id has that id replaced in place -/
def pushVec (vec : List Nat) (old : Option (Option Nat)) (t : Option Nat) : List Nat :=
  match old, t with
  | some (some o), some id => if o = id then vec else vec.map (fun x => if x = o then id else x)
  | some (some o), none => vec.filter (fun x => x != o)
  | _, some id => vec ++ [id]
  | _, none => vec

/-- `container::push_back(key, target_id)` -/
def Cont.pushBack (c : Cont) (key : List B) (t : Option Nat) : Cont :=
  { c with vec := pushVec c.vec (findKey c.map key) t, map := setKey c.map key t }

/-- `lookup_in_inherited`: outer `none` = the loop did not end within the fuel -/
def lookupInh (h : Host) : Nat → Option Nat → List B → Option (Option Nat)
  | 0, _, _ => none
  | _ + 1, none, _ => some none
  | f + 1, some i, target =>
    match findKey (h.get i).map target with
    | some r => some r
    | none => lookupInh h f (h.get i).inherited target

/-- `lookup_in_logical` -/
def lookupLog (h : Host) : Nat → Option Nat → List B → Option (Option Nat)
  | 0, _, _ => none
  | _ + 1, none, _ => some none
  | f + 1, some i, target =>
    match findKey (h.get i).map target with
    | some r => some r
    | none => lookupLog h f (h.get i).logical target

/-- the cycle test of `append_or_replace`: does the inherited chain starting at `o` pass through `r`?
    Running out of fuel counts as "yes" (the new base is refused). -/
def onInhChain (h : Host) : Nat → Option Nat → Nat → Bool
  | 0, _, _ => true
  | _ + 1, none, _ => false
  | f + 1, some i, r => if i = r then true else onInhChain h f (h.get i).inherited r

/-- fuel the executable model gives every parent-following loop -/
def Host.fuel (h : Host) : Nat := h.size + 2

/-- the base class a class definition names: `lookup_in_logical(inherited)` from the enclosing class -/
def baseOf (h : Host) (idx : Nat) (inh : List B) : Option Nat :=
  (lookupLog h h.fuel (some idx) inh).getD none

/-- a new container `target` below `idx` with inherited parent `base` -/
def createIn (h : Host) (idx : Nat) (target : List B) (base : Option Nat) : Host :=
  (({ conts := h.conts ++ [{ name := target, logical := some idx, inherited := base }] } : Host).set idx
    ((({ conts := h.conts ++ [{ name := target, logical := some idx, inherited := base }] } : Host).get idx).pushBack
      target (some h.size)))

/-- `append_or_replace(target, inherited)` on the (valid) container `idx` -/
def appendOrReplace (h : Host) (idx : Nat) (target inh : List B) : Host × Nat :=
  match findKey (h.get idx).map target with
  | some (some existing) =>
    if inh.isEmpty then (h, existing)
    else if onInhChain h h.fuel (baseOf h idx inh) existing then (h, existing)
    else (h.set existing { h.get existing with inherited := baseOf h idx inh }, existing)
  | _ => (createIn h idx target (if inh.isEmpty then none else baseOf h idx inh), h.size)

/-- `delete_inherited_or_replace(target)` -/
def deleteEntry (h : Host) (idx : Nat) (target : List B) : Host :=
  h.set idx ((h.get idx).pushBack target none)

def Host.setValue (h : Host) (i : Nat) (v : CVal) : Host := h.set i { h.get i with value := v }

/-! ## The AST of a config text and `apply_to_confighost` -/

/-- value literals as the parser hands them over (token texts) -/
inductive Lit where
  | dec (tok : List B)        -- NUMBER_DECIMAL
  | hex (tok : List B)        -- NUMBER_HEXADECIMAL
  | str (tok : List B)        -- STRING (token with its quotes)
  | text (t : List B)         -- ANYSTRING / IDENT / ANY: the source text from first to last token
  | arr (xs : List Lit)       -- ARRAY
  deriving Repr, Inhabited

inductive Node where
  | classDef (n : List B)
  | classDefExt (n base : List B)
  | cls (n : List B) (body : List Node)
  | clsExt (n base : List B) (body : List Node)
  | del (n : List B)
  | field (n : List B) (v : Lit)
  | fieldArr (n : List B) (v : Lit)
  | fieldArrAppend (n : List B) (v : Lit)
  deriving Repr, Inhabited

/-- `std::stod` on a config NUMBER token (optional sign), stored as a scalar; out of range gives NaN -/
def numOfDecTok (t : List B) : CVal :=
  let (neg, body) := match t with
    | 45 :: r => (true, r)
    | 43 :: r => (false, r)
    | r => (false, r)
  match valOfNumberText body with
  | .num d => .num (if neg then d.negate else d)
  | _ => .nan

def numOfHexTok (t : List B) : CVal :=
  match valOfHexText t with
  | .num d => .num d
  | _ => .nan

mutual
def evalLit : Lit → CVal
  | .dec t => numOfDecTok t
  | .hex t => numOfHexTok t
  | .str t => .str (fromSqf t)
  | .text t => .str t
  | .arr xs => .arr (evalLits xs)
def evalLits : List Lit → List CVal
  | [] => []
  | x :: xs => evalLit x :: evalLits xs
end

/-- the `InheritedParentNotFound` diagnostic of CLASS_DEF_EXT / CLASS_EXT -/
def bindDiag (h : Host) (id : Nat) (diags : List Nat) : List Nat :=
  if (h.get id).inherited.isNone then diags ++ [Diag.config_InheritedParentNotFound] else diags

/-- FIELD / FIELD_ARRAY: create or re-open the entry and store the value -/
def applyField (h : Host) (parent : Nat) (n : List B) (v : Lit) : Host :=
  let r := appendOrReplace h parent n []
  r.1.setValue r.2 (evalLit v)

/-- the inherited array a `+=` extends: `nav.parent_logical().parent_inherited() / name` -/
def appendSource (h : Host) (id : Nat) (n : List B) : Option Nat :=
  let up := match (h.get id).logical with
    | some p => (h.get p).inherited
    | none => none
  (lookupInh h h.fuel up n).getD none

/-- FIELD_ARRAY_APPEND -/
def applyAppend (h : Host) (parent : Nat) (n : List B) (v : Lit) : Host :=
  let r := appendOrReplace h parent n []
  let h2 := r.1.setValue r.2 (evalLit v)
  match appendSource h2 r.2 n with
  | some src =>
    match (h2.get r.2).value, (h2.get src).value with
    | .arr own, .arr inherited => h2.setValue r.2 (.arr (inherited ++ own))
    | _, _ => h2
  | none => h2

mutual
/-- `apply_to_confighost(node, host, parent)` -/
def applyNode (h : Host) (diags : List Nat) (parent : Nat) : Node → Host × List Nat
  | .classDef n => ((appendOrReplace h parent n []).1, diags)
  | .classDefExt n base =>
    ((appendOrReplace h parent n base).1,
      bindDiag (appendOrReplace h parent n base).1 (appendOrReplace h parent n base).2 diags)
  | .cls n body =>
    applyNodes (appendOrReplace h parent n []).1 diags (appendOrReplace h parent n []).2 body
  | .clsExt n base body =>
    applyNodes (appendOrReplace h parent n base).1
      (bindDiag (appendOrReplace h parent n base).1 (appendOrReplace h parent n base).2 diags)
      (appendOrReplace h parent n base).2 body
  | .del n => (deleteEntry h parent n, diags)
  | .field n v => (applyField h parent n v, diags)
  | .fieldArr n v => (applyField h parent n v, diags)
  | .fieldArrAppend n v => (applyAppend h parent n v, diags)
def applyNodes (h : Host) (diags : List Nat) (parent : Nat) : List Node → Host × List Nat
  | [] => (h, diags)
  | x :: xs =>
    applyNodes (applyNode h diags parent x).1 (applyNode h diags parent x).2 parent xs
end

/-- `parser::parse(target, contents)`: the top-level statements are applied to the root -/
def load (h : Host) (ast : List Node) : Host × List Nat := applyNodes h [] 0 ast

/-! ## The config operators -/

def renderCVal : Nat → CVal → List B
  | 0, _ => n!"<deep>"
  | f + 1, v =>
    match v with
    | .none => n!"nil"
    | .num d => renderDec d
    | .nan => n!"nan"
    | .str s => renderStr s
    | .arr xs => [91] ++ joinWith [44] (xs.map (renderCVal f)) ++ [93]

/-- names from the root to the container along the logical parents (`configHierarchy`) -/
def hierarchy (h : Host) : Nat → Option Nat → List (List B) → List (List B)
  | 0, _, acc => acc
  | _ + 1, none, acc => acc
  | f + 1, some i, acc => hierarchy h f (h.get i).logical ((h.get i).name :: acc)

/-- text of a config value in the observation: `<cfg:config/bin/A/B>`, `<cfg-null>` -/
def renderCfg (h : Host) : Option Nat → List B
  | none => n!"<cfg-null>"
  | some i => n!"<cfg:" ++ joinWith [47] (hierarchy h h.fuel (some i) []) ++ [62]

def isClass (c : Cont) : Bool :=
  decide (c.vec.length > 0) || (match c.value with | .none => true | _ => false)

inductive Step where
  | down (name : List B)      -- cfg >> "name"
  | select (i : Int)          -- cfg select i
  | inherits                  -- inheritsFrom cfg
  deriving Repr

inductive Obs where
  | num | text | arr | isNum | isText | isArr | isClass | isNull | name | count | hier | classes | self
  deriving Repr, DecidableEq

/-- evaluation state of a query: the current config (or null), the diagnostics so far, and whether an
    error-level diagnostic stopped the script -/
structure QState where
  cur : Option Nat
  diags : List Nat := []
  failed : Bool := false

open Diag in
def stepQ (h : Host) (q : QState) : Step → QState
  | .down name =>
    match q.cur with
    | none => { q with diags := q.diags ++ [runtime_ExpectedNonNullValueWeak, runtime_ReturningConfigNull] }
    | some i =>
      match (lookupInh h h.fuel (some i) name).getD none with
      | some r => { q with cur := some r }
      | none => { q with cur := none, diags := q.diags ++ [runtime_ConfigEntryNotFoundWeak, runtime_ReturningConfigNull] }
  | .select idx =>
    match q.cur with
    | none => { q with failed := true, diags := q.diags ++ [runtime_ExpectedNonNullValue, runtime_ReturningConfigNull] }
    | some i =>
      let c := h.get i
      if idx < 0 || idx ≥ (c.vec.length : Int) then
        { q with cur := none, diags := q.diags ++ [runtime_IndexOutOfRangeWeak, runtime_ReturningConfigNull] }
      else { q with cur := c.vec[idx.toNat]? }
  | .inherits =>
    match q.cur with
    | none => { q with failed := true, diags := q.diags ++ [runtime_ExpectedNonNullValue, runtime_ReturningConfigNull] }
    | some i => { q with cur := (h.get i).inherited }

def runSteps (h : Host) : QState → List Step → QState
  | q, [] => q
  | q, s :: ss => if q.failed then q else runSteps h (stepQ h q s) ss

/-- level of a diagnostic code (`loglevel`: fatal 0, error 1, warning 2, …), from the generated table -/
def levelOf (code : Nat) : Nat :=
  match Diag.diagTable.find? (fun e => e.1 == code) with
  | some e => e.2
  | none => 9

/-- the codes an observer of warnings sees -/
def visible (codes : List Nat) : List Nat := codes.filter (fun c => levelOf c ≤ 2)

/-- the observation of a query: rendered result and all diagnostic codes it raised. An error-level
    diagnostic ends the script; the VM then reports the stack trace. -/
def observeQ (h : Host) (steps : List Step) (o : Obs) : List B × List Nat :=
  let q := runSteps h { cur := some 0 } steps
  if q.failed then (n!"!", q.diags ++ [Diag.runtime_Stacktrace])
  else
    let weakNull (ret : Nat) (v : List B) : List B × List Nat :=
      (v, q.diags ++ [Diag.runtime_ExpectedNonNullValueWeak, ret])
    let hardNull (ret : Nat) : List B × List Nat :=
      (n!"!", q.diags ++ [Diag.runtime_ExpectedNonNullValue, ret, Diag.runtime_Stacktrace])
    match o, q.cur with
    | .self, c => (renderCfg h c, q.diags)
    | .isNull, c => (if c.isNone then n!"true" else n!"false", q.diags)
    | .num, none => weakNull Diag.runtime_ReturningScalarZero n!"0"
    | .num, some i => ((match (h.get i).value with | .num d => renderDec d | .nan => n!"nan" | _ => n!"0"), q.diags)
    | .text, none => weakNull Diag.runtime_ReturningEmptyString n!"\"\""
    | .text, some i => ((match (h.get i).value with | .str s => renderStr s | _ => n!"\"\""), q.diags)
    | .arr, none => weakNull Diag.runtime_ReturningEmptyArray n!"[]"
    | .arr, some i => ((match (h.get i).value with | .arr xs => renderCVal 64 (.arr xs) | _ => n!"[]"), q.diags)
    | .isNum, none => weakNull Diag.runtime_ReturningFalse n!"false"
    | .isNum, some i => ((match (h.get i).value with | .num _ | .nan => n!"true" | _ => n!"false"), q.diags)
    | .isText, none => weakNull Diag.runtime_ReturningFalse n!"false"
    | .isText, some i => ((match (h.get i).value with | .str _ => n!"true" | _ => n!"false"), q.diags)
    | .isArr, none => weakNull Diag.runtime_ReturningFalse n!"false"
    | .isArr, some i => ((match (h.get i).value with | .arr _ => n!"true" | _ => n!"false"), q.diags)
    | .isClass, none => weakNull Diag.runtime_ReturningFalse n!"false"
    | .isClass, some i => (if isClass (h.get i) then n!"true" else n!"false", q.diags)
    | .name, none => hardNull Diag.runtime_ReturningEmptyString
    | .name, some i => (renderStr (h.get i).name, q.diags)
    | .count, none => hardNull Diag.runtime_ReturningScalarZero
    | .count, some i => (natDigits (h.get i).vec.length, q.diags)
    | .hier, none => hardNull Diag.runtime_ReturningEmptyArray
    | .hier, some i => ([91] ++ joinWith [44] ((hierarchy h h.fuel (some i) []).map renderStr) ++ [93], q.diags)
    | .classes, none => hardNull Diag.runtime_ReturningEmptyArray
    | .classes, some i =>
      let cs := (h.get i).vec.filter (fun id => isClass (h.get id))
      ([91] ++ joinWith [44] (cs.map (fun id => renderCfg h (some id))) ++ [93], q.diags)

end Sqf.Cfg
