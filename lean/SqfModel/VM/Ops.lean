import SqfModel.SortKey
import SqfModel.VM.Stack
import SqfModel.Print
/-!
# Operators of the modelled fragment

Each operator is a function `M → M × Val` (the value is what `call_unary`/`call_binary` pushes after
the callback returns — `nil` for the callbacks that push a frame, where it lands in the *new* frame's
region as a placeholder).  `none` = no overload registered for these operand types.
References: `src/operators/ops_generic.cpp`, `ops_logic.cpp`, `ops_math.cpp`, `ops_namespace.cpp`,
`ops_sqfvm.cpp`.
-/
namespace Sqf.VM
open Sqf

/-- the magic variable holding the `d_switch` of the innermost `switch … do` -/
def switchMagic : Name := n!"___switch"

def num (n : Nat) : Val := .num (Dec.ofNat n)

/-- a frame over `code` in the default namespace (every construct passes `runtime.default_value_scope()`) -/
def mkFrame (code : List Instr) (vars : List (Name × Val) := []) (exitB : Option Beh := none)
    (errB : Option Beh := none) (globals : Nat := 0) : Frame :=
  { code := code, vars := vars, exitB := exitB, errB := errB, globals := globals }

def M.top? (m : M) : Option Frame := m.ctx.top?

/-! ### effects of an operator on the context

Operators never rebuild the frame stack or the value stack themselves: they return a list of
*effects*, and `applyEff` is the only place where an operator's effect reaches the stacks. Frames
handed back by an operator keep the `base` they had (`withBases`), so no operator can move a
region boundary. -/

inductive Eff where
  /-- `context.push_frame(f)` -/
  | pushFrame (f : Frame)
  /-- update fields of the current frame (variables, scope name, position, die flag) -/
  | setTop (f : Frame)
  /-- update variables of several frames (same number of frames, bases kept) -/
  | setFrames (fs : List Frame)
  /-- leave the current scope (`clear_values(); pop_frame()`) -/
  | popClear
  /-- leave `k` scopes -/
  | popClearN (k : Nat)
  /-- `throw`: hand a value to the error behaviour of frame `idx` -/
  | throwTo (idx : Nat) (v : Val)
  /-- `context.suspend(ms)`: one clock read, then the context sleeps until `now + ms` -/
  | suspend (ms : Nat)
  /-- `context.terminate(true)` on the running context itself -/
  | terminateSelf

/-- new frames take the bases of the old ones -/
def withBases : List Frame → List Frame → List Frame
  | old :: olds, new :: news => { new with base := old.base } :: withBases olds news
  | olds, [] => olds
  | [], _ => []

/-- element `i` of a list, `nil` when out of range (`vector::at` would throw; the callers guard) -/
def nth (xs : List Val) (i : Nat) : Val := xs.getD i .nil

/-! ### equality (`value::operator==`, `data::equals`) — used by `case`, `isEqualTo`, `==` -/

mutual
/-- `left == right` on non-nil values. `ci` = case-insensitive string comparison. Arrays compare by
    content; any nil element makes arrays unequal; code compares instruction by instruction.
    `fuel` bounds the nesting followed through the heap. -/
def valEq (h : List (List Val)) (ci : Bool) : Nat → Val → Val → Bool
  | 0, _, _ => false
  | f + 1, a, b =>
    match a, b with
    | .num x, .num y => Dec.eq x y
    | .bool x, .bool y => x == y
    | .str x, .str y => if ci then lower x == lower y else x == y
    | .ref i, .ref j => i == j || listEq h ci f (h.getD i []) (h.getD j [])
    | .ns i, .ns j => i == j
    | .code x, .code y => instrsEq h f x y
    | _, _ => false
def listEq (h : List (List Val)) (ci : Bool) : Nat → List Val → List Val → Bool
  | 0, _, _ => false
  | _ + 1, [], [] => true
  | f + 1, x :: xs, y :: ys =>
    (match x, y with
      | .nil, _ => false
      | _, .nil => false
      | _, _ => valEq h ci f x y) && listEq h ci f xs ys
  | _ + 1, _, _ => false
/-- `instruction::equals` element-wise (`std::equal` over the two instruction sets) -/
def instrsEq (h : List (List Val)) : Nat → List Instr → List Instr → Bool
  | 0, _, _ => false
  | _ + 1, [], [] => true
  | f + 1, x :: xs, y :: ys => instrEq h f x y && instrsEq h f xs ys
  | _ + 1, _, _ => false
def instrEq (h : List (List Val)) : Nat → Instr → Instr → Bool
  | 0, _, _ => false
  | f + 1, x, y =>
    match x, y with
    | .push a, .push b =>
      (match a, b with
        | .nil, .nil => true
        | .nil, _ => false
        | _, .nil => false
        | _, _ => valEq h false f a b)
    | .callNular a, .callNular b => a == b
    | .callUnary a, .callUnary b => a == b
    | .callBinary a _, .callBinary b _ => a == b
    | .assignTo a, .assignTo b => a == b
    | .assignToLocal a, .assignToLocal b => a == b
    | .getVariable a, .getVariable b => a == b
    | .makeArray a, .makeArray b => a == b
    | .endStatement, .endStatement => true
    | _, _ => false
end

/-! ### array recursion test (`d_array::recursion_test`) -/

/-- does array `target` occur (transitively) inside the list `xs`? (arrays only) -/
def reaches (h : List (List Val)) : Nat → Nat → List Val → Bool
  | 0, _, _ => true
  | f + 1, target, xs =>
    xs.any (fun v => match v with
      | .ref j => j == target || reaches h f target (h.getD j [])
      | _ => false)

/-- `data::reaches`: can the container `target` (`isMap` tells which kind) be reached from the values
    `xs` by following arrays *and* hash maps (keys and values)? -/
def reachesC (h : List (List Val)) (maps : List (List (Val × Val))) : Nat → Bool → Nat → List Val → Bool
  | 0, _, _, _ => true
  | f + 1, isMap, target, xs =>
    xs.any (fun v => match v with
      | .ref j => (!isMap && j == target) || reachesC h maps f isMap target (h.getD j [])
      | .mapref j =>
        (isMap && j == target) ||
          reachesC h maps f isMap target ((maps.getD j []).flatMap (fun e => [e.1, e.2]))
      | _ => false)

/-- `value::operator==`: two empty values are equal, otherwise `data::equals` (case sensitive) -/
def valueEq (h : List (List Val)) (a b : Val) : Bool :=
  match a, b with
  | .nil, .nil => true
  | .nil, _ => false
  | _, .nil => false
  | _, _ => valEq h false (h.length + 10000) a b

/-! ### variable helpers -/

/-- set a variable in the innermost frame (following bubbling) that holds it -/
def setWhereFound : List Frame → Name → Val → List Frame
  | [], _, _ => []
  | f :: fs, n, v =>
    if varsContains f.vars n then { f with vars := varsSet f.vars n v } :: fs
    else if f.bubble then f :: setWhereFound fs n v else f :: fs

/-- `assign_to` for a local: *all* frames innermost-out (no bubble check), else the current frame -/
def assignLocal : List Frame → Name → Val → Option (List Frame)
  | [], _, _ => none
  | f :: fs, n, v =>
    if varsContains f.vars n then some ({ f with vars := varsSet f.vars n v } :: fs)
    else match assignLocal fs n v with
      | some fs' => some (f :: fs')
      | none => none

/-! ### breakOut / throw -/

/-- index (0 = top) of the innermost frame whose scope name is `target` -/
def findScope : List Frame → Name → Nat → Option Nat
  | [], _, _ => none
  | f :: fs, target, i => if f.scopeName == target then some i else findScope fs target (i + 1)

/-- leave the current scope: its pending operands go with it -/
def popClear (c : Ctx) : Ctx := c.clearV.popF

def popClearN : Nat → Ctx → Ctx
  | 0, c => c
  | n + 1, c => popClearN n (popClear c)

def findRecover : List Frame → Nat → Option Nat
  | [], _ => none
  | f :: fs, i => if f.errB.isSome then some i else findRecover fs (i + 1)

/-- replace frame `idx` (0 = top) keeping its base -/
def Ctx.setFrameAt (c : Ctx) (idx : Nat) (f : Frame) : Ctx :=
  match c.frames[idx]? with
  | some old => { c with frames := c.frames.set idx { f with base := old.base } }
  | none => c

/-- drop the `k` topmost frames *without* touching the value stack (error unwinding: the operands of
    the dropped frames stay in the region of the handler frame until it clears or completes) -/
def Ctx.dropFrames (c : Ctx) (k : Nat) : Ctx := { c with frames := c.frames.drop k }

/-- result of `frame::recover_runtime_error` -/
inductive Recover where
  | ok | done | error

/-- `frame::recover_runtime_error` applied to frame number `idx` (0 = top) while the frames above it
    are still on the stack (as `throw` does); `errFlag` = `runtime.__runtime_error()` -/
def recoverAt (c : Ctx) (errFlag : Bool) (idx : Nat) : Ctx × Recover :=
  match c.frames[idx]? with
  | none => (c, .error)
  | some fr =>
    match fr.errB with
    | none => (c, .error)
    | some (.catchB handler) =>
      if errFlag then (c, .error)
      else
        -- pop_value / clear_values act on the *current* (top) frame's region
        let (val, c1) := match c.popV with
          | some (v, c') => (some v, c')
          | none => (none, c)
        let c2 := c1.clearV
        let exn := match val with
          | some (.strace p) => p
          | _ => .nil
        -- the handler that took over is removed from the frame (it is not its own handler)
        (c2.setFrameAt idx { fr with vars := [(n!"_exception", exn)], code := handler, pc := 0, errB := none }, .ok)
    | some (.exceptB handler exchanged) =>
      if exchanged then (c, .error)
      else
        let (val, c1) := match c.popV with
          | some (v, c') => (some v, c')
          | none => (none, c)
        let c2 := c1.clearV
        (c2.setFrameAt idx { fr with vars := [(n!"_exception", val.getD .nil)], code := handler, pc := 0,
                                     errB := none }, .ok)
    | some _ => (c, .ok)

/-- the stack part of `throw_any`; the Boolean tells whether the handler took over -/
def throwCtx (c : Ctx) (errFlag : Bool) (idx : Nat) (v : Val) : Ctx × Bool :=
  let valpos := c.vals.length
  let c1 := c.pushV (.strace v)
  match recoverAt c1 errFlag idx with
  | (c2, .error) =>
    (if valpos > 0 then (match c2.popV with | some (_, c3) => c3 | none => c2) else c2, false)
  | (c2, _) => (c2.dropFrames idx, true)

/-- the only place where an operator's effect reaches the stacks -/
def applyEff (e : Eff) (m : M) : M :=
  match e with
  | .pushFrame f => { m with ctx := m.ctx.pushF f }
  | .setTop f =>
    match m.ctx.frames with
    | old :: _ => { m with ctx := m.ctx.setTop { f with base := old.base } }
    | [] => m
  | .setFrames fs => { m with ctx := { m.ctx with frames := withBases m.ctx.frames fs } }
  | .popClear => { m with ctx := popClear m.ctx }
  | .popClearN k => { m with ctx := popClearN k m.ctx }
  | .throwTo idx v =>
    match throwCtx m.ctx m.err idx v with
    | (c, true) => { m with ctx := c }
    | (c, false) => ({ m with ctx := c }).log Diag.runtime_ErrorMessage
  | .suspend ms =>
    let (t, m1) := m.readClock
    { m1 with ctx := { m1.ctx with suspended := true, wakeup := t + ms } }
  | .terminateSelf => { m with ctx := { m.ctx with terminate := true } }

def applyEffs : List Eff → M → M
  | [], m => m
  | e :: es, m => applyEffs es (applyEff e m)

/-- what an operator returns: the machine with its non-stack changes (diagnostics, heap, namespaces),
    the stack effects, and the value `call_*` pushes afterwards -/
abbrev OpRes := M × List Eff × Val

def pure' (m : M) (v : Val) : Option OpRes := some (m, [], v)
/-- `runtime.current_value_scope()`: the namespace selected by the innermost enclosing `with … do` -/
def curNs (m : M) : Nat := match m.ctx.top? with | some f => f.globals | none => 0

/-- push a frame that runs in the namespace of the scope it is started from -/
def frame' (m : M) (f : Frame) : Option OpRes := some (m, [.pushFrame { f with globals := curNs m }], .nil)

/-- `throw_any` -/
def throwAny (m : M) (v : Val) : Option OpRes :=
  match findRecover m.ctx.frames 0 with
  | none => some (m.log Diag.runtime_ErrorMessage, [], .nil)
  | some idx => some (m, [.throwTo idx v], .nil)

/-- `breakout_any_string` -/
def breakOut (m : M) (l : Val) (s : Name) : Option OpRes :=
  if s.isEmpty then some (m, [.popClear], l)
  else match findScope m.ctx.frames s 0 with
    | some k => some (m, [.popClearN (k + 1)], l)
    | none => some (m.log Diag.runtime_ScopeNameNotFound, [], .nil)

/-! ### nular operators -/

def nularOp (n : Name) (m : M) : Option OpRes :=
  if n == n!"missionnamespace" then pure' m (.ns 0)
  else if n == n!"uinamespace" then pure' m (.ns 1)
  else if n == n!"parsingnamespace" then pure' m (.ns 2)
  else if n == n!"profilenamespace" then pure' m (.ns 3)
  else if n == n!"nil" then pure' m .nil
  else if n == n!"cansuspend" then pure' m (.bool m.ctx.canSuspend)
  else if n == n!"scriptnull" then pure' m (.script 0)
  else if n == n!"createhashmap" then let (m', id) := m.allocMap []; pure' m' (.mapref id)
  else if n == n!"currentnamespace" then pure' m (.ns (match m.top? with | some f => f.globals | none => 0))
  -- `exit__`: the run is asked to end; nothing executes behind this instruction
  else if n == n!"exit__" then pure' { m with exitReq := true } .nil
  else none

/-! ### unary operators -/

def privateNames (m : M) (names : List Name) : Option OpRes :=
  match m.top? with
  | none => pure' m .nil
  | some f => some (m, [.setTop { f with vars := names.foldl varsTouch f.vars }], .nil)

def uop_call (r : Val) (m : M) : Option OpRes :=
  match r with
  | .code is =>
    let this := (m.ctx.getVar n!"_this").getD .nil
    frame' m (mkFrame is [(n!"_this", this)])
  | _ => none

def uop_count (r : Val) (m : M) : Option OpRes :=
  match r with
  | .ref id => pure' m (num (m.arr id).length)
  | .mapref id => pure' m (num (m.map id).length)
  | _ => none

def uop_if (r : Val) (m : M) : Option OpRes :=
  match r with
  | .bool b => pure' m (.ifv b)
  | _ => none

def uop_while (r : Val) (m : M) : Option OpRes :=
  match r with
  | .code c => pure' m (.whilev c)
  | _ => none

def uop_for (r : Val) (m : M) : Option OpRes :=
  match r with
  | .str s => pure' m (.forv s Dec.zero Dec.zero (Dec.ofNat 1))
  | _ => none

def uop_switch (r : Val) (m : M) : Option OpRes :=
  pure' m (.sw r false false [])

def uop_try (r : Val) (m : M) : Option OpRes :=
  match r with
  | .code c => pure' m (.exc c)
  | _ => none

def uop_private (r : Val) (m : M) : Option OpRes :=
  match r with
  | .str s => privateNames m [s]
  | .ref id =>
    let xs := m.arr id
    let bad := xs.filter (fun v => match v with | .str _ => false | _ => true)
    if bad.isEmpty then
      privateNames m (xs.filterMap (fun v => match v with | .str s => some s | _ => none))
    else pure' (bad.foldl (fun m _ => m.log Diag.runtime_ExpectedArrayTypeMissmatch) m) .nil
  | _ => none

def uop_isnil (r : Val) (m : M) : Option OpRes :=
  match r with
  | .str s =>
    let v := match m.ctx.getVar s with
      | some v => some v
      | none => varsGet (nsGet m.nss (match m.top? with | some f => f.globals | none => 0)) s
    pure' m (.bool (match v with | some .nil => true | some _ => false | none => true))
  | .code c => frame' m (mkFrame c [] (some .isNil))
  | _ => none

def uop_scopename (r : Val) (m : M) : Option OpRes :=
  match r, m.top? with
  | .str s, some f =>
    if f.scopeName.isEmpty then some (m, [.setTop { f with scopeName := s }], .nil)
    else pure' (m.log Diag.runtime_ScopeNameAlreadySet) .nil
  | _, _ => none

def uop_breakout (r : Val) (m : M) : Option OpRes :=
  match r with
  | .str s => breakOut m .nil s
  | _ => none

def uop_throw (r : Val) (m : M) : Option OpRes :=
  throwAny m r

def uop__21 (r : Val) (m : M) : Option OpRes :=
  match r with
  | .bool b => pure' m (.bool (!b))
  | _ => none

def uop__2d (r : Val) (m : M) : Option OpRes :=
  match r with
  | .num d => pure' m (.num d.negate)
  | _ => none

def uop__2b (r : Val) (m : M) : Option OpRes :=
  match r with
  | .num d => pure' m (.num d)
  | .nan => pure' m .nan
  | _ => none

def uop_case (r : Val) (m : M) : Option OpRes :=
  match m.ctx.getVar switchMagic with
  | some (.sw v mn hm tgt) =>
    let hit := match r, v with
      | .nil, _ => false
      | _, .nil => false
      | _, _ => valEq m.heap false (m.heap.length + 10000) r v
    let s' := Val.sw v (mn || hit) hm tgt
    some (m, [.setFrames (setWhereFound m.ctx.frames switchMagic s')], s')
  | _ => pure' (m.log Diag.runtime_MagicVariableTypeMissmatch) .nil

def uop_default (r : Val) (m : M) : Option OpRes :=
  match r with
  | .code c =>
    match m.ctx.getVar switchMagic with
    | some (.sw v mn hm tgt) =>
      let s' := if hm then Val.sw v mn hm tgt else Val.sw v mn hm c
      some (m, [.setFrames (setWhereFound m.ctx.frames switchMagic s')], .nil)
    | _ => pure' (m.log Diag.runtime_MagicVariableTypeMissmatch) .nil
  | _ => none

def uop_with (r : Val) (m : M) : Option OpRes :=
  match r with
  | .ns id => pure' m (.withv id)
  | _ => none

def uop_comment (r : Val) (m : M) : Option OpRes :=
  match r with
  | .str _ => pure' m .nil
  | _ => none

/-! ### arrays as shared, mutable references (`d_array`, `ops_generic.cpp`) -/

/-- `d_array::copy_deep`: nested arrays are copied, everything else is shared -/
def copyDeep : Nat → M → List Val → M × Nat
  | 0, m, xs => m.alloc xs
  | f + 1, m, xs =>
    let rec go : List Val → M → List Val → M × List Val
      | [], mm, acc => (mm, acc.reverse)
      | v :: vs, mm, acc =>
        match v with
        | .ref j =>
          let (mm', nid) := copyDeep f mm (mm.arr j)
          go vs mm' (.ref nid :: acc)
        | _ => go vs mm (v :: acc)
    let (m', ys) := go xs m []
    m'.alloc ys

/-- would storing `v` in array `id` make `id` contain itself? (`recursion_test`: follows arrays only) -/
def wouldCycle (m : M) (id : Nat) (v : Val) : Bool :=
  reachesC m.heap m.maps (m.heap.length + m.maps.length + 1) false id [v]

/-- would storing `v` in hash map `id` make the map contain itself? -/
def wouldCycleMap (m : M) (id : Nat) (v : Val) : Bool :=
  reachesC m.heap m.maps (m.heap.length + m.maps.length + 1) true id [v]

def truncInt (d : Dec) : Int := Dec.trunc d

/-- `d_array::max_size`: the largest number of elements a script may ask an array to have -/
def maxArraySize : Nat := 9999999

def roundIdx (d : Dec) : Int :=
  -- std::round on an exact decimal: round half away from zero — the magnitude plus a half, cut off, with the sign
  let a : Dec := { d with neg := false }
  let twice := Dec.add (Dec.mul a (Dec.ofNat 2)) (Dec.ofNat 1)
  let r := (Dec.trunc twice) / 2
  if d.neg then -r else r

/-- a scalar where a whole number is expected (`util::float_to_int` / `round_to_int`): NaN counts as
    negative; the saturation at the ends of `int` changes nothing the callers can observe (sizes are below it) -/
def intOfVal (round : Bool) : Val → Option Int
  | .num d => some (if round then roundIdx d else Dec.trunc d)
  | .nan => some (-1)
  | _ => none

def bop_set (l r : Val) (m : M) : Option OpRes :=
  match l, r with
  | .ref id, .ref p =>
    let ps := m.arr p
    if ps.length != 2 then pure' (m.log Diag.runtime_ExpectedArraySizeMissmatch) .nil
    else match intOfVal false (nth ps 0) with
      | some idx =>
        if idx < 0 then pure' (m.log Diag.runtime_NegativeIndex) .nil
        else if idx.toNat ≥ maxArraySize then pure' (m.log Diag.runtime_IndexOutOfRange) .nil
        else
          let i := idx.toNat
          let xs := m.arr id
          let xs1 := if xs.length ≤ i then xs ++ List.replicate (i + 1 - xs.length) .nil else xs
          let v := nth ps 1
          if wouldCycle m id v then
            -- refused: the old element and the old size are restored
            pure' (m.log Diag.runtime_ArrayRecursion) .nil
          else pure' (m.setArr id (xs1.set i v)) .nil
      | none => pure' (m.log Diag.runtime_ExpectedArrayTypeMissmatch) .nil
  | .mapref id, .ref p =>
    let ps := m.arr p
    if ps.length != 2 then pure' (m.log Diag.runtime_ExpectedArraySizeMissmatch) .nil
    else
      -- the key is captured by value: an array key is copied
      let (m1, key) : M × Val := match nth ps 0 with
        | .ref k => let (mm, nid) := copyDeep (m.heap.length + 1) m (m.arr k); (mm, .ref nid)
        | k => (m, k)
      if wouldCycleMap m1 id key || wouldCycleMap m1 id (nth ps 1) then pure' (m1.log Diag.runtime_ArrayRecursion) .nil
      else
      let kv := m1.map id
      let kv' := if kv.any (fun e => valueEq m1.heap e.1 key) then kv.map (fun e => if valueEq m1.heap e.1 key then (e.1, nth ps 1) else e)
                 else kv ++ [(key, nth ps 1)]
      pure' (m1.setMap id kv') .nil
  | _, _ => none

def bop_pushbackunique (l r : Val) (m : M) : Option OpRes :=
  match l with
  | .ref id =>
    let xs := m.arr id
    if xs.any (fun x => valueEq m.heap x r) then pure' m (.num (Dec.ofInt (-1)))
    else if wouldCycle m id r then pure' (m.log Diag.runtime_ArrayRecursion) .nil
    else pure' (m.setArr id (xs ++ [r])) (num xs.length)
  | _ => none

def bop_append (l r : Val) (m : M) : Option OpRes :=
  match l, r with
  | .ref id, .ref j =>
    let ys := m.arr j
    if ys.any (fun v => wouldCycle m id v) then pure' (m.log Diag.runtime_ArrayRecursion) .nil
    else pure' (m.setArr id (m.arr id ++ ys)) .nil
  | _, _ => none

def bop_deleteat (l r : Val) (m : M) : Option OpRes :=
  match l, r with
  | .ref id, .num d =>
    let xs := m.arr id
    let idx := truncInt d
    if idx ≥ (xs.length : Int) then pure' (m.log Diag.runtime_IndexOutOfRangeWeak) .nil
    else if idx < 0 then pure' (m.log Diag.runtime_NegativeIndexWeak) .nil
    else pure' (m.setArr id (xs.eraseIdx idx.toNat)) (nth xs idx.toNat)
  | .ref _, .nan => pure' (m.log Diag.runtime_NegativeIndexWeak) .nil
  | .mapref id, k =>
    let kv := m.map id
    match kv.find? (fun e => valueEq m.heap e.1 k) with
    | some e => pure' (m.setMap id (kv.filter (fun e' => !valueEq m.heap e'.1 k))) e.2
    | none => pure' m .nil
  | _, _ => none

/-- `deleteRange`: the elements `from … to` (both rounded, `to` pulled up to `from` and down to the last
    index) are removed; a range that starts behind the last element removes nothing -/
def bop_deleterange (l r : Val) (m : M) : Option OpRes :=
  match l, r with
  | .ref id, .ref p =>
    let ps := m.arr p
    if ps.length != 2 then pure' (m.log Diag.runtime_ExpectedArraySizeMissmatch) .nil
    else
      match intOfVal true (nth ps 0), intOfVal true (nth ps 1) with
      | some f, some t0 =>
        let xs := m.arr id
        let m1 := if f > t0 then m.log Diag.runtime_StartIndexExceedsToIndexWeak else m
        let t1 := if f > t0 then f else t0
        if f < 0 then pure' ((m1.log Diag.runtime_NegativeIndexWeak).log Diag.runtime_ReturningNil) .nil
        else
          let m2 := if t1 ≥ (xs.length : Int) then m1.log Diag.runtime_IndexOutOfRangeWeak else m1
          let t2 : Int := if t1 ≥ (xs.length : Int) then (xs.length : Int) - 1 else t1
          if f > t2 then pure' m2 .nil
          else pure' (m2.setArr id (xs.take f.toNat ++ xs.drop (t2.toNat + 1))) .nil
      | a, b =>
        -- `check_type` reports every element that is no number
        let m1 := if a.isNone then m.log Diag.runtime_ExpectedArrayTypeMissmatch else m
        let m2 := if b.isNone then m1.log Diag.runtime_ExpectedArrayTypeMissmatch else m1
        pure' m2 .nil
  | _, _ => none

/-! ### sort -/

/-- the type of a value as far as `sort` and `check_type` tell values apart -/
def typeTag : Val → Nat
  | .nil => 0 | .num _ => 1 | .nan => 1 | .str _ => 2 | .ref _ => 3 | .bool _ => 4 | .code _ => 5 | .mapref _ => 6
  | .ns _ => 7 | .script _ => 8 | .ifv _ => 9 | .whilev _ => 10 | .forv .. => 11 | .sw .. => 12 | .withv _ => 13
  | .exc _ => 14 | .strace _ => 15 | .other _ => 16

def atomOf : Val → SortKey.Atom
  | .num d => .num d
  | .nan => .nan
  | .str s => .str s
  | _ => .other

/-- the key of an element: itself, or the elements of the array it is -/
def sortKey (m : M) : Val → List SortKey.Atom
  | .ref id => (m.arr id).map atomOf
  | v => [atomOf v]

/-- `sort`: numbers, strings, or arrays of the same shape, ascending or descending; anything else is
    reported and left as it is. The order among equal keys is that of a stable sort (the implementation
    does not promise one). -/
def bop_sort (l r : Val) (m : M) : Option OpRes :=
  match l, r with
  | .ref id, .bool asc =>
    let xs := m.arr id
    if xs.length ≤ 1 then pure' m .nil
    else
      let t := typeTag (nth xs 0)
      if t != 1 && t != 2 && t != 3 then pure' (m.log Diag.runtime_ExpectedArrayTypeMissmatch) .nil
      else
        -- every element of another type is reported
        let bad := xs.filter (fun v => typeTag v != t)
        if !bad.isEmpty then pure' (bad.foldl (fun mm _ => mm.log Diag.runtime_ExpectedArrayTypeMissmatch) m) .nil
        else
          -- arrays: the first one that has another shape than the first element stops the operator
          let shape : List Nat := match nth xs 0 with | .ref f => (m.arr f).map typeTag | _ => []
          let firstBad : Option (List Val) := if t == 3 then
              (xs.filterMap (fun v => match v with | .ref k => some (m.arr k) | _ => none)).find? (fun ys => ys.map typeTag != shape)
            else none
          match firstBad with
          | some ys =>
            if ys.length != shape.length then pure' (m.log Diag.runtime_ExpectedArraySizeMissmatch) .nil
            else
              let n := ((ys.map typeTag).zip shape).countP (fun p => p.1 != p.2)
              pure' ((List.range n).foldl (fun mm _ => mm.log Diag.runtime_ExpectedArrayTypeMissmatch) m) .nil
          | none =>
            let le := fun (a b : Val) =>
              let c := SortKey.cmpKeys (sortKey m a) (sortKey m b)
              if asc then decide (c ≤ 0) else decide (c ≥ 0)
            pure' (m.setArr id (xs.mergeSort le)) .nil
  | _, _ => none

def bop_resize (l r : Val) (m : M) : Option OpRes :=
  match l, r with
  | .ref id, .num d =>
    let xs := m.arr id
    let i := truncInt d
    if i < 0 then pure' (m.log Diag.runtime_NegativeSize) .nil
    else if i.toNat > maxArraySize then pure' (m.log Diag.runtime_IndexOutOfRange) .nil
    else
      let n := i.toNat
      pure' (m.setArr id (if n ≤ xs.length then xs.take n else xs ++ List.replicate (n - xs.length) .nil)) .nil
  | .ref _, .nan => pure' (m.log Diag.runtime_NegativeSize) .nil
  | _, _ => none

def uop_reverse (r : Val) (m : M) : Option OpRes :=
  match r with
  | .ref id => pure' (m.setArr id (m.arr id).reverse) .nil
  | _ => none

def bop_in (l r : Val) (m : M) : Option OpRes :=
  match r with
  | .ref id => pure' m (.bool ((m.arr id).any (fun x => valueEq m.heap x l)))
  | .mapref id => pure' m (.bool ((m.map id).any (fun e => valueEq m.heap e.1 l)))
  | _ => none

def findIdx (m : M) (xs : List Val) (v : Val) : Nat → Option Nat
  | i => match xs with
    | [] => none
    | x :: rest => if valueEq m.heap x v then some i else findIdx m rest v (i + 1)

def bop_find (l r : Val) (m : M) : Option OpRes :=
  match l with
  | .ref id =>
    match findIdx m (m.arr id) r 0 with
    | some i => pure' m (num i)
    | none => pure' m (.num (Dec.ofInt (-1)))
  | _ => none

def bop_get (l r : Val) (m : M) : Option OpRes :=
  match l with
  | .mapref id =>
    match (m.map id).find? (fun e => valueEq m.heap e.1 r) with
    | some e => pure' m e.2
    | none => pure' m .nil
  | _ => none

def uop_keys (r : Val) (m : M) : Option OpRes :=
  match r with
  | .mapref id =>
    -- keys are handed out by value as well
    let rec go : List (Val × Val) → M → List Val → M × List Val
      | [], mm, acc => (mm, acc.reverse)
      | e :: es, mm, acc =>
        match e.1 with
        | .ref k => let (mm', nid) := copyDeep (mm.heap.length + 1) mm (mm.arr k); go es mm' (.ref nid :: acc)
        | k => go es mm (k :: acc)
    let (m1, ks) := go (m.map id) m []
    let (m2, nid) := m1.alloc ks
    pure' m2 (.ref nid)
  | _ => none

def uop_createhashmapfromarray (r : Val) (m : M) : Option OpRes :=
  match r with
  | .ref id =>
    let rec go : List Val → Nat → M → List (Val × Val) → M × List (Val × Val)
      | [], _, mm, kv => (mm, kv)
      | it :: rest, i, mm, kv =>
        match it with
        | .ref s =>
          let sub := mm.arr s
          if sub.length == 2 then
            let (m1, key) : M × Val := match nth sub 0 with
              | .ref k => let (m', nid) := copyDeep (mm.heap.length + 1) mm (mm.arr k); (m', .ref nid)
              | k => (mm, k)
            let kv' := if kv.any (fun e => valueEq m1.heap e.1 key) then kv.map (fun e => if valueEq m1.heap e.1 key then (e.1, nth sub 1) else e)
                       else kv ++ [(key, nth sub 1)]
            go rest (i + 1) m1 kv'
          else go rest (i + 1) (mm.log Diag.runtime_ExpectedArraySizeMissmatch) kv
        | _ => go rest (i + 1) (mm.log Diag.runtime_ExpectedArrayTypeMissmatch) kv
    let (m1, kv) := go (m.arr id) 0 m []
    let (m2, nid) := m1.allocMap kv
    pure' m2 (.mapref nid)
  | _ => none

def uop_pluscontainer (r : Val) (m : M) : Option OpRes :=
  match r with
  | .ref id => let (m', nid) := copyDeep (m.heap.length + 1) m (m.arr id); pure' m' (.ref nid)
  | .mapref id => let (m', nid) := m.allocMap (m.map id); pure' m' (.mapref nid)
  | _ => none

/-- milliseconds of a duration given in seconds (`duration_cast<milliseconds>` truncates) -/
def msOf (d : Dec) : Nat := (Dec.trunc (Dec.mul d (Dec.ofNat 1000))).toNat

def uop_sleep (r : Val) (m : M) : Option OpRes :=
  match r with
  | .num d =>
    if !m.ctx.canSuspend then pure' (m.log Diag.runtime_SuspensionInUnscheduledEnvironment) .nil
    else some (m, [.suspend (msOf d)], .nil)
  | _ => none

def uop_scriptdone (r : Val) (m : M) : Option OpRes :=
  match r with
  | .script id => pure' m (.bool (!m.alive.contains id))
  | _ => none

def uop_terminate (r : Val) (m : M) : Option OpRes :=
  match r with
  | .script id =>
    if !m.alive.contains id then pure' (m.log Diag.runtime_ScriptHandleAlreadyFinished) .nil
    else if m.termReq.contains id then pure' (m.log Diag.runtime_ScriptHandleAlreadyTerminated) .nil
    else if id == m.ctx.id then some ({ m with termReq := m.termReq ++ [id] }, [.terminateSelf], .nil)
    else pure' { m with termReq := m.termReq ++ [id] } .nil
  | _ => none

def uop_waituntil (r : Val) (m : M) : Option OpRes :=
  match r with
  | .code c => frame' m (mkFrame c [] (some (.waitUntil 0)))
  | _ => none

def uop_str (r : Val) (m : M) : Option OpRes :=
  pure' m (.str (strVal m.heap 10000 r))

/-! ### format -/

/-- number of a placeholder: its digits as a number, `none` standing for "more than any index" -/
def placeholderNum (limit : Nat) : List B → Nat → Nat
  | [], acc => acc
  | c :: cs, acc => if acc ≤ limit then placeholderNum limit cs (acc * 10 + (c - 48)) else placeholderNum limit cs acc

/-- the loop of `format` over the format string (`fuel` = its length + 1) -/
def formatLoop (h : List (List Val)) (args : List Val) : Nat → List B → List B → List Nat → List B × List Nat
  | 0, _, out, logs => (out, logs)
  | f + 1, text, out, logs =>
    let before := text.takeWhile (· != 37)
    match text.dropWhile (· != 37) with
    | [] => (out ++ before, logs)
    | _ :: rest =>
      -- rest: behind the '%'
      match rest with
      | [] => (out ++ before, logs ++ [Diag.runtime_FormatInvalidPlaceholder])
      | c :: rest' =>
        if !isDigit c then formatLoop h args f rest' (out ++ before) (logs ++ [Diag.runtime_FormatInvalidPlaceholder])
        else
          let digits := rest.takeWhile isDigit
          let after := rest.dropWhile isDigit
          let num := placeholderNum args.length digits 0
          if num ≥ args.length then formatLoop h args f after (out ++ before) (logs ++ [Diag.runtime_IndexOutOfRangeWeak])
          else
            let piece := match args.getD num .nil with
              | .str s => s
              | v => strVal h 10000 v
            formatLoop h args f after (out ++ before ++ piece) logs

def uop_format (r : Val) (m : M) : Option OpRes :=
  match r with
  | .ref id =>
    let args := m.arr id
    match args with
    | [] => pure' ((m.log Diag.runtime_ExpectedArrayToHaveElementsWeak).log Diag.runtime_ReturningEmptyString) (.str [])
    | .str fmt :: _ =>
      let res := formatLoop m.heap args (fmt.length + 1) fmt [] []
      pure' (res.2.foldl (fun mm d => mm.log d) m) (.str res.1)
    | _ :: _ => pure' ((m.log Diag.runtime_ExpectedArrayTypeMissmatchWeak).log Diag.runtime_ReturningEmptyString) (.str [])
  | _ => none

/-- `compile`: a parse failure raises the error flag without a diagnostic of its own (the parser has
    already logged) and yields nil -/
def uop_compile (r : Val) (m : M) : Option OpRes :=
  match r with
  | .str s =>
    match m.parse s with
    | some is => pure' m (.code is)
    | none => pure' ((m.log Diag.sqf_ParseError)) .nil
  | _ => none

def unaryOp (n : Name) (r : Val) (m : M) : Option OpRes :=
  if n == n!"call" then uop_call r m
  else if n == n!"count" then uop_count r m
  else if n == n!"if" then uop_if r m
  else if n == n!"while" then uop_while r m
  else if n == n!"for" then uop_for r m
  else if n == n!"switch" then uop_switch r m
  else if n == n!"try" then uop_try r m
  else if n == n!"private" then uop_private r m
  else if n == n!"isnil" then uop_isnil r m
  else if n == n!"scopename" then uop_scopename r m
  else if n == n!"breakout" then uop_breakout r m
  else if n == n!"throw" then uop_throw r m
  else if n == n!"!" || n == n!"not" then uop__21 r m
  else if n == n!"-" then uop__2d r m
  else if n == n!"+" then (match r with | .ref _ | .mapref _ => uop_pluscontainer r m | _ => uop__2b r m)
  else if n == n!"case" then uop_case r m
  else if n == n!"default" then uop_default r m
  else if n == n!"with" then uop_with r m
  else if n == n!"comment" then uop_comment r m
  else if n == n!"sleep" || n == n!"uisleep" then uop_sleep r m
  else if n == n!"str" then uop_str r m
  else if n == n!"format" then uop_format r m
  else if n == n!"reverse" then uop_reverse r m
  else if n == n!"keys" then uop_keys r m
  else if n == n!"createhashmapfromarray" then uop_createhashmapfromarray r m
  else if n == n!"compile" then uop_compile r m
  else if n == n!"scriptdone" || n == n!"isnull" then uop_scriptdone r m
  else if n == n!"terminate" then uop_terminate r m
  else if n == n!"waituntil" then uop_waituntil r m
  -- `toFixed N`: selects how numbers are printed until the run ends (the mode is taken back with the run; the model
  -- prints in the default mode, so generated programs print no number behind it in the same run)
  else if n == n!"tofixed" then (match r with | .num _ => pure' m .nil | _ => none)
  else none

/-! ### binary operators -/

/-- the iteration constructs: push a frame over `code` with `_x` bound to the first element -/
def pushIter (m : M) (code : List Instr) (vars : List (Name × Val)) (b : Beh) : Option OpRes :=
  frame' m (mkFrame code vars (some b))

def bop__2b (l r : Val) (m : M) : Option OpRes :=
  match l, r with
  | .num a, .num b => pure' m (.num (Dec.add a b))
  | .str a, .str b => pure' m (.str (a ++ b))
  | .ref a, .ref b => let (m', id) := m.alloc (m.arr a ++ m.arr b); pure' m' (.ref id)
  | _, _ => none

def bop__2d (l r : Val) (m : M) : Option OpRes :=
  match l, r with
  | .num a, .num b => pure' m (.num (Dec.sub a b))
  | .ref a, .ref b =>
    -- elements of the left array that do not occur in the right one
    let ys := m.arr b
    let (m', id) := m.alloc ((m.arr a).filter (fun x => !(ys.any (fun y => valueEq m.heap y x))))
    pure' m' (.ref id)
  | _, _ => none

def bop__2a (l r : Val) (m : M) : Option OpRes :=
  match l, r with
  | .num a, .num b => pure' m (.num (Dec.mul a b))
  | _, _ => none

def bop__3e (l r : Val) (m : M) : Option OpRes :=
  match l, r with | .num a, .num b => pure' m (.bool (Dec.lt b a)) | _, _ => none

def bop__3e_3d (l r : Val) (m : M) : Option OpRes :=
  match l, r with | .num a, .num b => pure' m (.bool (Dec.le b a)) | _, _ => none

def bop__3c (l r : Val) (m : M) : Option OpRes :=
  match l, r with | .num a, .num b => pure' m (.bool (Dec.lt a b)) | _, _ => none

def bop__3c_3d (l r : Val) (m : M) : Option OpRes :=
  match l, r with | .num a, .num b => pure' m (.bool (Dec.le a b)) | _, _ => none

def bop__3d_3d (l r : Val) (m : M) : Option OpRes :=
  match l, r with
  | .num _, .num _ | .str _, .str _ | .bool _, .bool _ => pure' m (.bool (valEq m.heap true 2 l r))
  | _, _ => none

def bop__21_3d (l r : Val) (m : M) : Option OpRes :=
  match l, r with
  | .num _, .num _ | .str _, .str _ | .bool _, .bool _ => pure' m (.bool (!valEq m.heap true 2 l r))
  | _, _ => none

def bop_isequalto (l r : Val) (m : M) : Option OpRes :=
  pure' m (.bool (valEq m.heap false (m.heap.length + 10000) l r))

def bop__26_26 (l r : Val) (m : M) : Option OpRes :=
  match l, r with
  | .bool a, .bool b => pure' m (.bool (a && b))
  | .bool a, .code c => if a then frame' m (mkFrame c) else pure' m (.bool false)
  | _, _ => none

def bop__7c_7c (l r : Val) (m : M) : Option OpRes :=
  match l, r with
  | .bool a, .bool b => pure' m (.bool (a || b))
  | .bool a, .code c => if a then pure' m (.bool true) else frame' m (mkFrame c)
  | _, _ => none

def bop_then (l r : Val) (m : M) : Option OpRes :=
  match l, r with
  | .ifv b, .code c => if b then frame' m (mkFrame c) else pure' m .nil
  | .ifv b, .ref id =>
    let xs := m.arr id
    if xs.length != 2 then pure' (m.log Diag.runtime_ExpectedArraySizeMissmatch) .nil
    else
      let el0 := nth xs 0
      let el1 := nth xs 1
      let isCode := fun (v : Val) => match v with | .code _ => true | _ => false
      if b then
        let m1 := if isCode el1 then m else m.log Diag.runtime_ExpectedArrayTypeMissmatchWeak
        match el0 with
        | .code c => frame' m1 (mkFrame c)
        | _ => pure' (m1.log Diag.runtime_ExpectedArrayTypeMissmatch) .nil
      else
        let m1 := if isCode el0 then m else m.log Diag.runtime_ExpectedArrayTypeMissmatchWeak
        match el1 with
        | .code c => frame' m1 (mkFrame c)
        | _ => pure' (m1.log Diag.runtime_ExpectedArrayTypeMissmatch) .nil
  | _, _ => none

def bop_else (l r : Val) (m : M) : Option OpRes :=
  match l, r with
  | .code _, .code _ => let (m', id) := m.alloc [l, r]; pure' m' (.ref id)
  | _, _ => none

def bop_exitwith (l r : Val) (m : M) : Option OpRes :=
  match l, r, m.top? with
  | .ifv b, .code c, some f =>
    if b then
      -- current_frame().die(): seek to end, suppress the exit behaviour; then push the block
      some (m, [.setTop { f with pc := f.code.length + 1, die := true }, .pushFrame { mkFrame c with globals := f.globals }], .nil)
    else pure' m .nil
  | _, _, _ => none

def bop_do (l r : Val) (m : M) : Option OpRes :=
  match l, r with
  | .whilev cond, .code body =>
    if cond.isEmpty then pure' (m.log Diag.runtime_ConditionEmpty) .nil
    else frame' m (mkFrame cond [] (some (.whileB false 0 cond body)))
  | .forv var frm to step, .code body =>
    let stepZero := step.mant == 0
    let skip := !stepZero && (if !step.neg then Dec.lt to frm else Dec.lt frm to)
    if skip then pure' m .nil
    else frame' m (mkFrame body [(lower var, .num frm)] (some (.forB var to step)))
  | .sw _ _ _ _, .code body => frame' m (mkFrame body [(switchMagic, l)] (some (.switchB false)))
  | .withv id, .code body => some (m, [.pushFrame (mkFrame body [] none none id)], .nil)
  | _, _ => none

def bop_from (l r : Val) (m : M) : Option OpRes :=
  match l, r with | .forv v _ t s, .num d => pure' m (.forv v d t s) | _, _ => none

def bop_to (l r : Val) (m : M) : Option OpRes :=
  match l, r with | .forv v f _ s, .num d => pure' m (.forv v f d s) | _, _ => none

def bop_step (l r : Val) (m : M) : Option OpRes :=
  match l, r with | .forv v f t _, .num d => pure' m (.forv v f t d) | _, _ => none

def bop_foreach (l r : Val) (m : M) : Option OpRes :=
  match l, r with
  | .code c, .ref id =>
    let xs := m.arr id
    if xs.isEmpty then pure' m .nil
    else pushIter m c [(n!"_foreachindex", num 0), (n!"_x", nth xs 0)] (.forEach id 0 xs.length)
  | _, _ => none

def bop_count (l r : Val) (m : M) : Option OpRes :=
  match l, r with
  | .code c, .ref id =>
    let xs := m.arr id
    if xs.isEmpty then pure' m (num 0)
    else pushIter m c [(n!"_x", nth xs 0)] (.count id 0 xs.length 0)
  | _, _ => none

def bop_select (l r : Val) (m : M) : Option OpRes :=
  match l, r with
  | .ref id, .code c =>
    let xs := m.arr id
    if xs.isEmpty then let (m', nid) := m.alloc []; pure' m' (.ref nid)
    else pushIter m c [(n!"_x", nth xs 0)] (.select id [] 0 xs.length)
  | .ref id, .ref p =>
    -- select [start, length]: a fresh array
    let vec := m.arr id
    let ps := m.arr p
    if ps.length < 1 then pure' (m.log Diag.runtime_ExpectedMinimumArraySizeMissmatch) .nil
    else
      let m0 := if ps.length != 2 then m.log Diag.runtime_ExpectedArraySizeMissmatchWeak else m
      match intOfVal true (nth ps 0) with
      | some start =>
        let empty := fun (mm : M) => let (m', nid) := mm.alloc []; pure' m' (.ref nid)
        if start < 0 then empty ((m0.log Diag.runtime_NegativeIndexWeak).log Diag.runtime_ReturningEmptyArray)
        else if start > (vec.length : Int) then empty ((m0.log Diag.runtime_IndexOutOfRangeWeak).log Diag.runtime_ReturningEmptyArray)
        else if ps.length ≥ 2 then
          match intOfVal true (nth ps 1) with
          | some len =>
            if len < 0 then empty ((m0.log Diag.runtime_NegativeIndexWeak).log Diag.runtime_ReturningEmptyArray)
            else let (m', nid) := m0.alloc ((vec.drop start.toNat).take len.toNat); pure' m' (.ref nid)
          | none => pure' (m0.log Diag.runtime_ExpectedArrayTypeMissmatch) .nil
        else empty m0
      | none => pure' (m0.log Diag.runtime_ExpectedArrayTypeMissmatch) .nil
  | .ref id, .num d =>
    let xs := m.arr id
    let idx := roundIdx d
    if (xs.length : Int) < idx || idx < 0 then pure' (m.log Diag.runtime_IndexOutOfRange) .nil
    else if (xs.length : Int) == idx then pure' (m.log Diag.runtime_IndexEqualsRange) .nil
    else pure' m (nth xs idx.toNat)
  | .ref _, .nan => pure' (m.log Diag.runtime_IndexOutOfRange) .nil
  | _, _ => none

def bop_apply (l r : Val) (m : M) : Option OpRes :=
  match l, r with
  | .ref id, .code c =>
    let xs := m.arr id
    if xs.isEmpty then let (m', nid) := m.alloc []; pure' m' (.ref nid)
    else pushIter m c [(n!"_x", nth xs 0)] (.apply id [] 0 xs.length)
  | _, _ => none

def bop_findif (l r : Val) (m : M) : Option OpRes :=
  match l, r with
  | .ref id, .code c =>
    let xs := m.arr id
    if xs.isEmpty then pure' m (.num (Dec.ofInt (-1)))
    else pushIter m c [(n!"_x", nth xs 0)] (.findIf id 0 xs.length)
  | _, _ => none

def bop_pushback (l r : Val) (m : M) : Option OpRes :=
  match l with
  | .ref id =>
    if wouldCycle m id r then pure' (m.log Diag.runtime_ArrayRecursion) .nil
    else pure' (m.setArr id (m.arr id ++ [r])) (num (m.arr id).length)
  | _ => none

def bop_catch (l r : Val) (m : M) : Option OpRes :=
  match l, r with
  | .exc body, .code handler => frame' m (mkFrame body [] none (some (.catchB handler)))
  | _, _ => none

def bop_except_5f_5f (l r : Val) (m : M) : Option OpRes :=
  match l, r with
  | .code body, .code handler => frame' m (mkFrame body [] none (some (.exceptB handler false)))
  | _, _ => none

def bop__3a (l r : Val) (m : M) : Option OpRes :=
  match l, r with
  | .sw _ _ _ _, .code c =>
    match m.ctx.getVar switchMagic, m.top? with
    | some (.sw v mn hm _), some _ =>
      if !hm && mn then
        let s' := Val.sw v false true c
        let fs := setWhereFound m.ctx.frames switchMagic s'
        -- … and seek the *current* frame to its end
        let fs' := match fs with
          | f :: rest => { f with pc := f.code.length + 1 } :: rest
          | [] => []
        some (m, [.setFrames fs'], .nil)
      else pure' m .nil
    | _, _ => pure' (m.log Diag.runtime_MagicVariableTypeMissmatch) .nil
  | _, _ => none

def bop_call (l r : Val) (m : M) : Option OpRes :=
  match r with
  | .code c => frame' m (mkFrame c [(n!"_this", l)])
  | _ => none

def bop_breakout (l r : Val) (m : M) : Option OpRes :=
  match r with
  | .str s => breakOut m l s
  | _ => none

def bop_throw (l r : Val) (m : M) : Option OpRes :=
  match l with
  | .ifv b => if b then throwAny m r else pure' m .nil
  | _ => none

def bop_getvariable (l r : Val) (m : M) : Option OpRes :=
  match l, r with
  | .ns id, .str s => pure' m ((varsGet (nsGet m.nss id) s).getD .nil)
  | .ns id, .ref a =>
    let xs := m.arr a
    if xs.length != 2 then pure' ((m.log Diag.runtime_ExpectedArraySizeMissmatch).log Diag.runtime_ReturningNil) .nil
    else match nth xs 0 with
      | .str s => pure' m ((varsGet (nsGet m.nss id) s).getD (nth xs 1))
      | _ => pure' ((m.log Diag.runtime_ExpectedArrayTypeMissmatch).log Diag.runtime_ReturningNil) .nil
  | _, _ => none

def bop_setvariable (l r : Val) (m : M) : Option OpRes :=
  match l, r with
  | .ns id, .ref a =>
    let xs := m.arr a
    if xs.length != 2 then pure' (m.log Diag.runtime_ExpectedArraySizeMissmatch) .nil
    else match nth xs 0 with
      | .str s => pure' { m with nss := nsSet m.nss id (varsSet (nsGet m.nss id) s (nth xs 1)) } .nil
      | _ => pure' (m.log Diag.runtime_ExpectedArrayTypeMissmatch) .nil
  | _, _ => none

/-- `spawn`: a new scheduled context with one frame over the code; it shares nothing with the
    spawning context but `_this` and gets `_thisScript` -/
def bop_spawn (l r : Val) (m : M) : Option OpRes :=
  match r with
  | .code c =>
    let id := m.nextCtx
    let f : Frame := mkFrame c [(n!"_thisscript", .script id), (n!"_this", l)]
    let ctx : Ctx := { frames := [f], canSuspend := true, weak := true, id := id }
    pure' { m with spawned := m.spawned ++ [ctx], nextCtx := id + 1, alive := m.alive ++ [id] } (.script id)
  | _ => none

def binaryOp (n : Name) (l r : Val) (m : M) : Option OpRes :=
  if n == n!"+" then bop__2b l r m
  else if n == n!"-" then bop__2d l r m
  else if n == n!"*" then bop__2a l r m
  else if n == n!">" then bop__3e l r m
  else if n == n!">=" then bop__3e_3d l r m
  else if n == n!"<" then bop__3c l r m
  else if n == n!"<=" then bop__3c_3d l r m
  else if n == n!"==" then bop__3d_3d l r m
  else if n == n!"!=" then bop__21_3d l r m
  else if n == n!"isequalto" then bop_isequalto l r m
  else if n == n!"&&" || n == n!"and" then bop__26_26 l r m
  else if n == n!"||" || n == n!"or" then bop__7c_7c l r m
  else if n == n!"then" then bop_then l r m
  else if n == n!"else" then bop_else l r m
  else if n == n!"exitwith" then bop_exitwith l r m
  else if n == n!"do" then bop_do l r m
  else if n == n!"from" then bop_from l r m
  else if n == n!"to" then bop_to l r m
  else if n == n!"step" then bop_step l r m
  else if n == n!"foreach" then bop_foreach l r m
  else if n == n!"count" then bop_count l r m
  else if n == n!"select" then bop_select l r m
  else if n == n!"apply" then bop_apply l r m
  else if n == n!"findif" then bop_findif l r m
  else if n == n!"pushback" then bop_pushback l r m
  else if n == n!"catch" then bop_catch l r m
  else if n == n!"except__" then bop_except_5f_5f l r m
  else if n == n!":" then bop__3a l r m
  else if n == n!"call" then bop_call l r m
  else if n == n!"breakout" then bop_breakout l r m
  else if n == n!"throw" then bop_throw l r m
  else if n == n!"getvariable" then bop_getvariable l r m
  else if n == n!"setvariable" then bop_setvariable l r m
  else if n == n!"spawn" then bop_spawn l r m
  else if n == n!"set" then bop_set l r m
  else if n == n!"pushbackunique" then bop_pushbackunique l r m
  else if n == n!"append" then bop_append l r m
  else if n == n!"deleteat" then bop_deleteat l r m
  else if n == n!"deleterange" then bop_deleterange l r m
  else if n == n!"sort" then bop_sort l r m
  else if n == n!"resize" then bop_resize l r m
  else if n == n!"in" then bop_in l r m
  else if n == n!"find" then bop_find l r m
  else if n == n!"get" then bop_get l r m
  else none

/-- run an operator result: the stack effects are applied to the context the operator started
    from, whatever the operator did to its copy; then the returned value is pushed -/
def finishOp (m0 : M) (res : OpRes) : M :=
  let (m', effs, v) := res
  let m1 := applyEffs effs { m' with ctx := m0.ctx }
  { m1 with ctx := m1.ctx.pushV v }

end Sqf.VM
