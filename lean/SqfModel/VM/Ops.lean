import SqfModel.VM.Stack
/-!
# Operators of the modelled fragment

Each operator is a function `M → M × Val` (the value is what `call_unary`/`call_binary` pushes after
the callback returns — `nil` for the callbacks that push a frame, where it lands in the *new* frame's
region as a placeholder).  `none` = no overload registered for these operand types.
References: `src/operators/ops_generic.cpp`, `ops_logic.cpp`, `ops_math.cpp`, `ops_namespace.cpp`,
`ops_sqfvm.cpp`.
-/
namespace Sqf.VM
open Sqf

/-- the magic variable holding the `d_switch` of the innermost `switch … do` -/
def switchMagic : Name := n!"___switch"

def num (n : Nat) : Val := .num (Dec.ofNat n)

/-- a frame over `code` in the default namespace (every construct passes `runtime.default_value_scope()`) -/
def mkFrame (code : List Instr) (vars : List (Name × Val) := []) (exitB : Option Beh := none)
    (errB : Option Beh := none) (globals : Nat := 0) : Frame :=
  { code := code, vars := vars, exitB := exitB, errB := errB, globals := globals }

def M.pushFrame (m : M) (f : Frame) : M := { m with ctx := m.ctx.pushF f }
def M.top? (m : M) : Option Frame := m.ctx.top?
def M.setTop (m : M) (f : Frame) : M := { m with ctx := m.ctx.setTop f }

/-- element `i` of a list, `nil` when out of range (`vector::at` would throw; the callers guard) -/
def nth (xs : List Val) (i : Nat) : Val := xs.getD i .nil

/-! ### equality (`value::operator==`, `data::equals`) — used by `case`, `isEqualTo`, `==` -/

mutual
/-- `left == right` on non-nil values. `ci` = case-insensitive string comparison. Arrays compare by
    content; any nil element makes arrays unequal. `fuel` bounds the nesting followed through the heap. -/
def valEq (h : List (List Val)) (ci : Bool) : Nat → Val → Val → Bool
  | 0, _, _ => false
  | f + 1, a, b =>
    match a, b with
    | .num x, .num y => Dec.eq x y
    | .bool x, .bool y => x == y
    | .str x, .str y => if ci then lower x == lower y else x == y
    | .ref i, .ref j => i == j || listEq h ci f (h.getD i []) (h.getD j [])
    | .ns i, .ns j => i == j
    | _, _ => false
def listEq (h : List (List Val)) (ci : Bool) : Nat → List Val → List Val → Bool
  | 0, _, _ => false
  | _ + 1, [], [] => true
  | f + 1, x :: xs, y :: ys =>
    (match x, y with
      | .nil, _ => false
      | _, .nil => false
      | _, _ => valEq h ci f x y) && listEq h ci f xs ys
  | _ + 1, _, _ => false
end

/-! ### array recursion test (`d_array::recursion_test`) -/

/-- does array `target` occur (transitively) inside the list `xs`? -/
def reaches (h : List (List Val)) : Nat → Nat → List Val → Bool
  | 0, _, _ => true
  | f + 1, target, xs =>
    xs.any (fun v => match v with
      | .ref j => j == target || reaches h f target (h.getD j [])
      | _ => false)

/-! ### variable helpers -/

/-- set a variable in the innermost frame (following bubbling) that holds it -/
def setWhereFound : List Frame → Name → Val → List Frame
  | [], _, _ => []
  | f :: fs, n, v =>
    if varsContains f.vars n then { f with vars := varsSet f.vars n v } :: fs
    else if f.bubble then f :: setWhereFound fs n v else f :: fs

/-- `assign_to` for a local: *all* frames innermost-out (no bubble check), else the current frame -/
def assignLocal : List Frame → Name → Val → Option (List Frame)
  | [], _, _ => none
  | f :: fs, n, v =>
    if varsContains f.vars n then some ({ f with vars := varsSet f.vars n v } :: fs)
    else match assignLocal fs n v with
      | some fs' => some (f :: fs')
      | none => none

/-! ### breakOut / throw -/

/-- index (0 = top) of the innermost frame whose scope name is `target` -/
def findScope : List Frame → Name → Nat → Option Nat
  | [], _, _ => none
  | f :: fs, target, i => if f.scopeName == target then some i else findScope fs target (i + 1)

/-- leave the current scope: its pending operands go with it -/
def popClear (c : Ctx) : Ctx := c.clearV.popF

def popClearN : Nat → Ctx → Ctx
  | 0, c => c
  | n + 1, c => popClearN n (popClear c)

/-- `breakout_any_string`: pop the frames up to and including the one named `target`, each together
    with its region of the value stack. `none`: no such scope. -/
def breakOutCtx (c : Ctx) (target : Name) : Option Ctx :=
  match findScope c.frames target 0 with
  | some k => some (popClearN (k + 1) c)
  | none => none

def findRecover : List Frame → Nat → Option Nat
  | [], _ => none
  | f :: fs, i => if f.errB.isSome then some i else findRecover fs (i + 1)

/-- result of `frame::recover_runtime_error` -/
inductive Recover where
  | ok | done | error

/-- `frame::recover_runtime_error` applied to frame number `idx` (0 = top) while the frames above it
    are still on the stack (as `throw` does) -/
def recoverAt (m : M) (idx : Nat) : M × Recover :=
  match m.ctx.frames[idx]? with
  | none => (m, .error)
  | some fr =>
    match fr.errB with
    | none => (m, .error)
    | some (.catchB handler) =>
      if m.err then (m, .error)
      else
        -- pop_value / clear_values act on the *current* (top) frame's region
        let (val, c1) := match m.ctx.popV with
          | some (v, c) => (some v, c)
          | none => (none, m.ctx)
        let c2 := c1.clearV
        let exn := match val with
          | some (.strace p) => p
          | _ => .nil
        let fr' := { fr with vars := [(n!"_exception", exn)], code := handler, pc := 0 }
        ({ m with ctx := { c2 with frames := c2.frames.set idx fr' } }, .ok)
    | some (.exceptB handler exchanged) =>
      if exchanged then (m, .error)
      else
        let (val, c1) := match m.ctx.popV with
          | some (v, c) => (some v, c)
          | none => (none, m.ctx)
        let c2 := c1.clearV
        let fr' := { fr with vars := [(n!"_exception", val.getD .nil)], code := handler, pc := 0,
                             errB := some (.exceptB handler true) }
        ({ m with ctx := { c2 with frames := c2.frames.set idx fr' } }, .ok)
    | some _ => (m, .ok)

/-- `throw_any` -/
def throwAny (m : M) (v : Val) : M × Val :=
  match findRecover m.ctx.frames 0 with
  | none => (m.log Diag.runtime_ErrorMessage, .nil)
  | some idx =>
    let valpos := m.ctx.vals.length
    let m1 := { m with ctx := m.ctx.pushV (.strace v) }
    match recoverAt m1 idx with
    | (m2, .error) =>
      let m3 := if valpos > 0 then (match m2.ctx.popV with | some (_, c) => { m2 with ctx := c } | none => m2) else m2
      (m3.log Diag.runtime_ErrorMessage, .nil)
    | (m2, _) => ({ m2 with ctx := { m2.ctx with frames := m2.ctx.frames.drop idx } }, .nil)

/-! ### nular operators -/

def nularOp (n : Name) (m : M) : Option (M × Val) :=
  if n == n!"missionnamespace" then some (m, .ns 0)
  else if n == n!"uinamespace" then some (m, .ns 1)
  else if n == n!"parsingnamespace" then some (m, .ns 2)
  else if n == n!"profilenamespace" then some (m, .ns 3)
  else if n == n!"nil" then some (m, .nil)
  else if n == n!"cansuspend" then some (m, .bool m.ctx.canSuspend)
  else if n == n!"currentnamespace" then some (m, .ns (match m.top? with | some f => f.globals | none => 0))
  else none

/-! ### unary operators -/

def privateNames (m : M) (names : List Name) : M :=
  match m.top? with
  | none => m
  | some f => m.setTop { f with vars := names.foldl varsTouch f.vars }

def unaryOp (n : Name) (r : Val) (m : M) : Option (M × Val) :=
  if n == n!"call" then
    match r with
    | .code is =>
      let this := (m.ctx.getVar n!"_this").getD .nil
      some (m.pushFrame (mkFrame is [(n!"_this", this)]), .nil)
    | _ => none
  else if n == n!"count" then
    match r with
    | .ref id => some (m, num (m.arr id).length)
    | _ => none
  else if n == n!"if" then
    match r with
    | .bool b => some (m, .ifv b)
    | _ => none
  else if n == n!"while" then
    match r with
    | .code c => some (m, .whilev c)
    | _ => none
  else if n == n!"for" then
    match r with
    | .str s => some (m, .forv s Dec.zero Dec.zero (Dec.ofNat 1))
    | _ => none
  else if n == n!"switch" then some (m, .sw r false false [])
  else if n == n!"try" then
    match r with
    | .code c => some (m, .exc c)
    | _ => none
  else if n == n!"private" then
    match r with
    | .str s => some (privateNames m [s], .nil)
    | .ref id =>
      let xs := m.arr id
      let bad := xs.filter (fun v => match v with | .str _ => false | _ => true)
      if bad.isEmpty then
        some (privateNames m (xs.filterMap (fun v => match v with | .str s => some s | _ => none)), .nil)
      else some (bad.foldl (fun m _ => m.log Diag.runtime_ExpectedArrayTypeMissmatch) m, .nil)
    | _ => none
  else if n == n!"isnil" then
    match r with
    | .str s =>
      let v := match m.ctx.getVar s with
        | some v => some v
        | none => varsGet (nsGet m.nss (match m.top? with | some f => f.globals | none => 0)) s
      some (m, .bool (match v with | some .nil => true | some _ => false | none => true))
    | .code c => some (m.pushFrame (mkFrame c [] (some .isNil)), .nil)
    | _ => none
  else if n == n!"scopename" then
    match r, m.top? with
    | .str s, some f =>
      if f.scopeName.isEmpty then some (m.setTop { f with scopeName := s }, .nil)
      else some (m.log Diag.runtime_ScopeNameAlreadySet, .nil)
    | _, _ => none
  else if n == n!"breakout" then
    match r with
    | .str s =>
      if s.isEmpty then some ({ m with ctx := popClear m.ctx }, .nil)
      else match breakOutCtx m.ctx s with
        | some c => some ({ m with ctx := c }, .nil)
        | none => some (m.log Diag.runtime_ScopeNameNotFound, .nil)
    | _ => none
  else if n == n!"throw" then some (throwAny m r)
  else if n == n!"!" || n == n!"not" then
    match r with
    | .bool b => some (m, .bool (!b))
    | _ => none
  else if n == n!"-" then
    match r with
    | .num d => some (m, .num d.negate)
    | _ => none
  else if n == n!"+" then
    match r with
    | .num d => some (m, .num d)
    | .nan => some (m, .nan)
    | _ => none
  else if n == n!"case" then
    match m.ctx.getVar switchMagic with
    | some (.sw v mn hm tgt) =>
      let hit := match r, v with
        | .nil, _ => false
        | _, .nil => false
        | _, _ => valEq m.heap false (m.heap.length + 2) r v
      let s' := Val.sw v (mn || hit) hm tgt
      some ({ m with ctx := { m.ctx with frames := setWhereFound m.ctx.frames switchMagic s' } }, s')
    | _ => some (m.log Diag.runtime_MagicVariableTypeMissmatch, .nil)
  else if n == n!"default" then
    match r with
    | .code c =>
      match m.ctx.getVar switchMagic with
      | some (.sw v mn hm tgt) =>
        let s' := if hm then Val.sw v mn hm tgt else Val.sw v mn hm c
        some ({ m with ctx := { m.ctx with frames := setWhereFound m.ctx.frames switchMagic s' } }, .nil)
      | _ => some (m.log Diag.runtime_MagicVariableTypeMissmatch, .nil)
    | _ => none
  else if n == n!"with" then
    match r with
    | .ns id => some (m, .withv id)
    | _ => none
  else if n == n!"comment" then
    match r with
    | .str _ => some (m, .nil)
    | _ => none
  else none

/-! ### binary operators -/

/-- the iteration constructs: push a frame over `code` with `_x` bound to the first element -/
def pushIter (m : M) (code : List Instr) (vars : List (Name × Val)) (b : Beh) : M :=
  m.pushFrame (mkFrame code vars (some b))

def roundIdx (d : Dec) : Int :=
  -- std::round on an exact decimal: round half away from zero
  let twice := Dec.add (Dec.mul d (Dec.ofNat 2)) { neg := d.neg, mant := 1, exp := 0 }
  (Dec.trunc twice) / 2

def binaryOp (n : Name) (l r : Val) (m : M) : Option (M × Val) :=
  if n == n!"+" then
    match l, r with
    | .num a, .num b => some (m, .num (Dec.add a b))
    | .str a, .str b => some (m, .str (a ++ b))
    | .ref a, .ref b => let (m', id) := m.alloc (m.arr a ++ m.arr b); some (m', .ref id)
    | _, _ => none
  else if n == n!"-" then
    match l, r with
    | .num a, .num b => some (m, .num (Dec.sub a b))
    | _, _ => none
  else if n == n!"*" then
    match l, r with
    | .num a, .num b => some (m, .num (Dec.mul a b))
    | _, _ => none
  else if n == n!">" then
    match l, r with | .num a, .num b => some (m, .bool (Dec.lt b a)) | _, _ => none
  else if n == n!">=" then
    match l, r with | .num a, .num b => some (m, .bool (Dec.le b a)) | _, _ => none
  else if n == n!"<" then
    match l, r with | .num a, .num b => some (m, .bool (Dec.lt a b)) | _, _ => none
  else if n == n!"<=" then
    match l, r with | .num a, .num b => some (m, .bool (Dec.le a b)) | _, _ => none
  else if n == n!"==" then
    match l, r with
    | .num _, .num _ | .str _, .str _ | .bool _, .bool _ => some (m, .bool (valEq m.heap true 2 l r))
    | _, _ => none
  else if n == n!"!=" then
    match l, r with
    | .num _, .num _ | .str _, .str _ | .bool _, .bool _ => some (m, .bool (!valEq m.heap true 2 l r))
    | _, _ => none
  else if n == n!"isequalto" then some (m, .bool (valEq m.heap false (m.heap.length + 2) l r))
  else if n == n!"&&" || n == n!"and" then
    match l, r with
    | .bool a, .bool b => some (m, .bool (a && b))
    | .bool a, .code c => if a then some (m.pushFrame (mkFrame c), .nil) else some (m, .bool false)
    | _, _ => none
  else if n == n!"||" || n == n!"or" then
    match l, r with
    | .bool a, .bool b => some (m, .bool (a || b))
    | .bool a, .code c => if a then some (m, .bool true) else some (m.pushFrame (mkFrame c), .nil)
    | _, _ => none
  else if n == n!"then" then
    match l, r with
    | .ifv b, .code c => if b then some (m.pushFrame (mkFrame c), .nil) else some (m, .nil)
    | .ifv b, .ref id =>
      let xs := m.arr id
      if xs.length != 2 then some (m.log Diag.runtime_ExpectedArraySizeMissmatch, .nil)
      else
        let el0 := nth xs 0
        let el1 := nth xs 1
        let isCode := fun (v : Val) => match v with | .code _ => true | _ => false
        if b then
          let m1 := if isCode el1 then m else m.log Diag.runtime_ExpectedArrayTypeMissmatchWeak
          match el0 with
          | .code c => some (m1.pushFrame (mkFrame c), .nil)
          | _ => some (m1.log Diag.runtime_ExpectedArrayTypeMissmatch, .nil)
        else
          let m1 := if isCode el0 then m else m.log Diag.runtime_ExpectedArrayTypeMissmatchWeak
          match el1 with
          | .code c => some (m1.pushFrame (mkFrame c), .nil)
          | _ => some (m1.log Diag.runtime_ExpectedArrayTypeMissmatch, .nil)
    | _, _ => none
  else if n == n!"else" then
    match l, r with
    | .code _, .code _ => let (m', id) := m.alloc [l, r]; some (m', .ref id)
    | _, _ => none
  else if n == n!"exitwith" then
    match l, r, m.top? with
    | .ifv b, .code c, some f =>
      if b then
        -- current_frame().die(): seek to end, suppress the exit behaviour
        let m1 := m.setTop { f with pc := f.code.length + 1, die := true }
        some (m1.pushFrame (mkFrame c), .nil)
      else some (m, .nil)
    | _, _, _ => none
  else if n == n!"do" then
    match l, r with
    | .whilev cond, .code body =>
      if cond.isEmpty then some (m.log Diag.runtime_ConditionEmpty, .nil)
      else some (m.pushFrame (mkFrame cond [] (some (.whileB false 0 cond body))), .nil)
    | .forv var frm to step, .code body =>
      let stepZero := step.mant == 0
      let skip := !stepZero && (if !step.neg then Dec.lt to frm else Dec.lt frm to)
      if skip then some (m, .nil)
      else some (m.pushFrame (mkFrame body [(lower var, .num frm)] (some (.forB var to step))), .nil)
    | .sw _ _ _ _, .code body =>
      some (m.pushFrame (mkFrame body [(switchMagic, l)] (some (.switchB false))), .nil)
    | .withv id, .code body => some (m.pushFrame (mkFrame body [] none none id), .nil)
    | _, _ => none
  else if n == n!"from" then
    match l, r with | .forv v _ t s, .num d => some (m, .forv v d t s) | _, _ => none
  else if n == n!"to" then
    match l, r with | .forv v f _ s, .num d => some (m, .forv v f d s) | _, _ => none
  else if n == n!"step" then
    match l, r with | .forv v f t _, .num d => some (m, .forv v f t d) | _, _ => none
  else if n == n!"foreach" then
    match l, r with
    | .code c, .ref id =>
      let xs := m.arr id
      if xs.isEmpty then some (m, .nil)
      else some (pushIter m c [(n!"_foreachindex", num 0), (n!"_x", nth xs 0)] (.forEach id 0 xs.length), .nil)
    | _, _ => none
  else if n == n!"count" then
    match l, r with
    | .code c, .ref id =>
      let xs := m.arr id
      if xs.isEmpty then some (m, num 0)
      else some (pushIter m c [(n!"_x", nth xs 0)] (.count id 0 xs.length 0), .nil)
    | _, _ => none
  else if n == n!"select" then
    match l, r with
    | .ref id, .code c =>
      let xs := m.arr id
      if xs.isEmpty then let (m', nid) := m.alloc []; some (m', .ref nid)
      else some (pushIter m c [(n!"_x", nth xs 0)] (.select id [] 0 xs.length), .nil)
    | .ref id, .num d =>
      let xs := m.arr id
      let idx := roundIdx d
      if (xs.length : Int) < idx || idx < 0 then some (m.log Diag.runtime_IndexOutOfRange, .nil)
      else if (xs.length : Int) == idx then some (m.log Diag.runtime_IndexEqualsRange, .nil)
      else some (m, nth xs idx.toNat)
    | _, _ => none
  else if n == n!"apply" then
    match l, r with
    | .ref id, .code c =>
      let xs := m.arr id
      if xs.isEmpty then let (m', nid) := m.alloc []; some (m', .ref nid)
      else some (pushIter m c [(n!"_x", nth xs 0)] (.apply id [] 0 xs.length), .nil)
    | _, _ => none
  else if n == n!"findif" then
    match l, r with
    | .ref id, .code c =>
      let xs := m.arr id
      if xs.isEmpty then some (m, .num (Dec.ofInt (-1)))
      else some (pushIter m c [(n!"_x", nth xs 0)] (.findIf id 0 xs.length), .nil)
    | _, _ => none
  else if n == n!"pushback" then
    match l with
    | .ref id =>
      let xs := m.arr id
      let cyc := match r with
        | .ref j => j == id || reaches m.heap (m.heap.length + 1) id (m.arr j)
        | _ => false
      if cyc then some (m.log Diag.runtime_ArrayRecursion, .nil)
      else some (m.setArr id (xs ++ [r]), num xs.length)
    | _ => none
  else if n == n!"catch" then
    match l, r with
    | .exc body, .code handler => some (m.pushFrame (mkFrame body [] none (some (.catchB handler))), .nil)
    | _, _ => none
  else if n == n!"except__" then
    match l, r with
    | .code body, .code handler => some (m.pushFrame (mkFrame body [] none (some (.exceptB handler false))), .nil)
    | _, _ => none
  else if n == n!":" then
    match l, r with
    | .sw _ _ _ _, .code c =>
      match m.ctx.getVar switchMagic, m.top? with
      | some (.sw v mn hm tgt), some _ =>
        if !hm && mn then
          let s' := Val.sw v false true c
          let fs := setWhereFound m.ctx.frames switchMagic s'
          -- seek the *current* frame to its end
          let fs' := match fs with
            | f :: rest => { f with pc := f.code.length + 1 } :: rest
            | [] => []
          some ({ m with ctx := { m.ctx with frames := fs' } }, .nil)
        else some ({ m with ctx := m.ctx }, .nil)
      | _, _ => some (m.log Diag.runtime_MagicVariableTypeMissmatch, .nil)
    | _, _ => none
  else if n == n!"call" then
    match r with
    | .code c => some (m.pushFrame (mkFrame c [(n!"_this", l)]), .nil)
    | _ => none
  else if n == n!"breakout" then
    match r with
    | .str s =>
      if s.isEmpty then some ({ m with ctx := popClear m.ctx }, l)
      else match breakOutCtx m.ctx s with
        | some c => some ({ m with ctx := c }, l)
        | none => some (m.log Diag.runtime_ScopeNameNotFound, .nil)
    | _ => none
  else if n == n!"throw" then
    match l with
    | .ifv b => if b then some (throwAny m r) else some (m, .nil)
    | _ => none
  else if n == n!"getvariable" then
    match l, r with
    | .ns id, .str s => some (m, (varsGet (nsGet m.nss id) s).getD .nil)
    | .ns id, .ref a =>
      let xs := m.arr a
      if xs.length != 2 then some ((m.log Diag.runtime_ExpectedArraySizeMissmatch).log Diag.runtime_ReturningNil, .nil)
      else match nth xs 0 with
        | .str s => some (m, (varsGet (nsGet m.nss id) s).getD (nth xs 1))
        | _ => some ((m.log Diag.runtime_ExpectedArrayTypeMissmatch).log Diag.runtime_ReturningNil, .nil)
    | _, _ => none
  else if n == n!"setvariable" then
    match l, r with
    | .ns id, .ref a =>
      let xs := m.arr a
      if xs.length != 2 then some (m.log Diag.runtime_ExpectedArraySizeMissmatch, .nil)
      else match nth xs 0 with
        | .str s => some ({ m with nss := nsSet m.nss id (varsSet (nsGet m.nss id) s (nth xs 1)) }, .nil)
        | _ => some (m.log Diag.runtime_ExpectedArrayTypeMissmatch, .nil)
    | _, _ => none
  else none

end Sqf.VM
