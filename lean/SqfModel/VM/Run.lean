import SqfModel.VM.Step
import SqfModel.Compile
import SqfModel.Render
/-!
# Loading a program and rendering the observation of the `run` / `trace` verbs
-/
namespace Sqf.VM
open Sqf

/-- lexicographic order on byte strings (`std::string::compare`) -/
def bytesLe : List B → List B → Bool
  | [], _ => true
  | _ :: _, [] => false
  | a :: as, b :: bs => if a < b then true else if a > b then false else bytesLe as bs

def insertSorted (x : List B) : List (List B) → List (List B)
  | [] => [x]
  | y :: ys => if bytesLe x y then x :: y :: ys else y :: insertSorted x ys

def sortBytes (xs : List (List B)) : List (List B) := xs.foldl (fun acc x => insertSorted x acc) []

/-- values rendered through the heap (arrays by content, hash maps as sorted entry lists), same text as
    `render_value` of the harness -/
def renderValM (m : M) : Nat → Val → List B
  | 0, _ => n!"<deep>"
  | f + 1, v =>
    match v with
    | .ref id => [91] ++ joinWith [44] ((m.arr id).map (renderValM m f)) ++ [93]
    | .mapref id =>
      n!"#{" ++ joinWith [44] (sortBytes ((m.map id).map (fun e => renderValM m f e.1 ++ [61] ++ renderValM m f e.2))) ++ [125]
    | .strace _ => n!"<VM-STACKTRACE>"
    | v => renderVal v

def renderV (m : M) (v : Val) : List B := renderValM m 65 v

/-- a fresh VM with one context holding one frame over the program -/
def load (prog : List Instr) (parse : List B → Option (List Instr) := fun _ => none) : M :=
  { ctx := { frames := [{ code := prog }] }, parse := parse }

def renderStack (m : M) : List B :=
  let bases := (m.ctx.frames.reverse.map (fun f => renderNat f.base))
  bytes "F" ++ joinWith [44] bases ++ bytes "|V" ++ joinWith [44] (m.ctx.vals.map (renderV m))

def resName : StepRes → List B
  | .ok => bytes "ok" | .empty => bytes "empty" | .runtimeError => bytes "runtime_error"
  | .hang => bytes "hang" | .crash => bytes "crash"

/-- run with a step limit, collecting the per-step trace -/
def runTrace : Nat → M → List (List B) → M × StepRes × Bool × List (List B)
  | 0, m, acc => (m, .ok, true, acc)
  | n + 1, m, acc =>
    match step 200000 m with
    | (m', .ok) =>
      let acc' := acc ++ [renderStack m' ++ bytes "|ok"]
      if m'.ctx.frames.isEmpty && false then (m', .ok, false, acc') else runTrace n m' acc'
    | (m', r) => (m', r, false, acc ++ [renderStack m' ++ bytes "|" ++ resName r])

def errCodes (m : M) : List B :=
  joinWith [44] ((m.diags.filter (fun d => d.level ≤ 1)).map (fun d => renderNat d.code))

/-- the observation of `run` / `trace` -/
def observe (prog : List Instr) (globals : List Name) (maxSteps : Nat) (trace : Bool)
    (parse : List B → Option (List Instr) := fun _ => none) : List B :=
  let (m, r, limit, steps) := runTrace maxSteps (load prog parse) []
  match r with
  | .hang => bytes "timeout"
  | .crash => bytes "cpp-exception:std::out_of_range"
  | _ =>
    let res := if limit then bytes "limit" else resName r
    let st := if limit then bytes "halted" else match r with
      | .empty => bytes "empty" | .runtimeError => bytes "halted_error" | _ => bytes "halted"
    let val := match r, m.ctx.vals.getLast? with
      | .empty, some v => renderV m v
      | _, _ => bytes "-"
    let gs := globals.flatMap (fun g =>
      [32] ++ g ++ bytes "=" ++ (match varsGet (nsGet m.nss 0) g with | some v => renderV m v | none => bytes "undef"))
    bytes "res=" ++ res ++ bytes " st=" ++ st ++ bytes " err=" ++ errCodes m ++ bytes " val=" ++ val ++ gs ++
      (if trace then bytes " T: " ++ joinWith (bytes " ; ") steps else [])

/-- observation of the `eq` verb: run `g1 = A; g2 = B`, then compare the two values both ways with
    `value::operator==` (isEqualTo) and with the case-insensitive comparison behind `==` -/
def observeEq (prog : List Instr) (parse : List B → Option (List Instr) := fun _ => none) : List B :=
  let (m, r, _, _) := runTrace 5000 (load prog parse) []
  match r with
  | .empty =>
    let a := (varsGet (nsGet m.nss 0) n!"g1").getD .nil
    let b := (varsGet (nsGet m.nss 0) n!"g2").getD .nil
    let bs := fun (x : Bool) => if x then n!"true" else n!"false"
    let ci := fun (x y : Val) => match x, y with
      | .nil, _ => false
      | _, .nil => false
      | _, _ => valEq m.heap true (m.heap.length + 10000) x y
    n!"ab=" ++ bs (valueEq m.heap a b) ++ n!" ba=" ++ bs (valueEq m.heap b a) ++ n!" ci=" ++ bs (ci a b)
  | _ => n!"eval-error"

end Sqf.VM
