import SqfModel.VM.Step
import SqfModel.Compile
import SqfModel.Render
/-!
# Loading a program and rendering the observation of the `run` / `trace` verbs
-/
namespace Sqf.VM
open Sqf

/-- values rendered through the heap (arrays by content), same text as `render_value` of the harness -/
def renderValH (h : List (List Val)) : Nat → Val → List B
  | 0, _ => bytes "<deep>"
  | f + 1, v =>
    match v with
    | .ref id => [91] ++ joinWith [44] ((h.getD id []).map (renderValH h f)) ++ [93]
    | .strace _ => bytes "<VM-STACKTRACE>"
    | .mapref _ => bytes "<HASHMAP>"
    | v => renderVal v

def renderV (m : M) (v : Val) : List B := renderValH m.heap 66 v

/-- a fresh VM with one context holding one frame over the program -/
def load (prog : List Instr) (parse : List B → Option (List Instr) := fun _ => none) : M :=
  { ctx := { frames := [{ code := prog }] }, parse := parse }

def renderStack (m : M) : List B :=
  let bases := (m.ctx.frames.reverse.map (fun f => renderNat f.base))
  bytes "F" ++ joinWith [44] bases ++ bytes "|V" ++ joinWith [44] (m.ctx.vals.map (renderV m))

def resName : StepRes → List B
  | .ok => bytes "ok" | .empty => bytes "empty" | .runtimeError => bytes "runtime_error"
  | .hang => bytes "hang" | .crash => bytes "crash"

/-- run with a step limit, collecting the per-step trace -/
def runTrace : Nat → M → List (List B) → M × StepRes × Bool × List (List B)
  | 0, m, acc => (m, .ok, true, acc)
  | n + 1, m, acc =>
    match step 200000 m with
    | (m', .ok) =>
      let acc' := acc ++ [renderStack m' ++ bytes "|ok"]
      if m'.ctx.frames.isEmpty && false then (m', .ok, false, acc') else runTrace n m' acc'
    | (m', r) => (m', r, false, acc ++ [renderStack m' ++ bytes "|" ++ resName r])

def errCodes (m : M) : List B :=
  joinWith [44] ((m.diags.filter (fun d => d.level ≤ 1)).map (fun d => renderNat d.code))

/-- the observation of `run` / `trace` -/
def observe (prog : List Instr) (globals : List Name) (maxSteps : Nat) (trace : Bool)
    (parse : List B → Option (List Instr) := fun _ => none) : List B :=
  let (m, r, limit, steps) := runTrace maxSteps (load prog parse) []
  match r with
  | .hang => bytes "timeout"
  | .crash => bytes "cpp-exception:std::out_of_range"
  | _ =>
    let res := if limit then bytes "limit" else resName r
    let st := if limit then bytes "halted" else match r with
      | .empty => bytes "empty" | .runtimeError => bytes "halted_error" | _ => bytes "halted"
    let val := match r, m.ctx.vals.getLast? with
      | .empty, some v => renderV m v
      | _, _ => bytes "-"
    let gs := globals.flatMap (fun g =>
      [32] ++ g ++ bytes "=" ++ (match varsGet (nsGet m.nss 0) g with | some v => renderV m v | none => bytes "undef"))
    bytes "res=" ++ res ++ bytes " st=" ++ st ++ bytes " err=" ++ errCodes m ++ bytes " val=" ++ val ++ gs ++
      (if trace then bytes " T: " ++ joinWith (bytes " ; ") steps else [])

end Sqf.VM
