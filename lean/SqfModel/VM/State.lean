import SqfModel.Value
import SqfModel.Generated.Diag
/-!
# VM state: frames, contexts, the machine

Mirrors `src/runtime/{frame.h,context.h,runtime.h}` as far as the properties C02–C05, C11, C12 need.
-/
namespace Sqf.VM
open Sqf

/-- Exit / error behaviours of a frame (`frame::behavior` subclasses of `ops_generic.cpp`,
    `ops_sqfvm.cpp`), each with exactly the private state of the C++ class. -/
inductive Beh where
  | count (arr idx size cnt : Nat)
  | whileB (inCode : Bool) (loops : Nat) (cond code : List Instr)
  | forB (var : Name) (to step : Dec)
  | forEach (arr idx size : Nat)
  | select (arr : Nat) (out : List Val) (idx size : Nat)
  | apply (arr : Nat) (out : List Val) (idx size : Nat)
  | findIf (arr idx size : Nat)
  | isNil
  | switchB (switched : Bool)
  | catchB (handler : List Instr)
  | waitUntil (count : Nat)
  | exceptB (handler : List Instr) (exchanged : Bool)

/-- `sqf::runtime::frame`. `pc` = number of instructions fetched so far, i.e. `m_position + 1`
    (`position_invalid` ↦ 0, "at end" ↦ `code.length + 1`). `vars` has lower-cased keys. -/
structure Frame where
  code : List Instr
  pc : Nat := 0
  exitB : Option Beh := none
  errB : Option Beh := none
  vars : List (Name × Val) := []
  /-- namespace id of `globals_value_scope()` -/
  globals : Nat := 0
  bubble : Bool := true
  die : Bool := false
  /-- `value_stack_pos` -/
  base : Nat := 0
  scopeName : Name := []

/-- `sqf::runtime::context`: frame stack (top = head) and value stack (bottom first). -/
structure Ctx where
  frames : List Frame := []
  vals : List Val := []
  canSuspend : Bool := false
  suspended : Bool := false
  wakeup : Nat := 0
  weak : Bool := false
  terminate : Bool := false
  /-- identity of the context (script handles refer to it) -/
  id : Nat := 1

/-- One diagnostic: numeric code and level (0 fatal, 1 error, 2 warning, …). -/
structure DiagEntry where
  code : Nat
  level : Nat

/-- The machine: active context plus the shared state of the runtime. -/
structure M where
  ctx : Ctx := {}
  heap : List (List Val) := []
  /-- hash maps: association lists (the *reference dictionary*: keys compared with `value::operator==`) -/
  maps : List (List (Val × Val)) := []
  /-- namespaces: 0 mission, 1 ui, 2 parsing, 3 profile -/
  nss : List (List (Name × Val)) := [[], [], [], []]
  /-- `m_runtime_error` -/
  err : Bool := false
  /-- `runtime.log_messages`: codes of the error-level messages since the last clear -/
  msgs : List Nat := []
  /-- every diagnostic delivered to the logger, in order -/
  diags : List DiagEntry := []
  /-- contexts created by `spawn` (appended to `m_contexts`) -/
  spawned : List Ctx := []
  nextCtx : Nat := 2
  /-- virtual clock in milliseconds -/
  now : Nat := 0
  exitReq : Bool := false
  /-- `max_loop_iterations_in_unscheduled` -/
  maxLoops : Nat := 10000
  /-- ids of the contexts currently in `m_contexts` (a script handle is "done" iff its id is not here) -/
  alive : List Nat := [1]
  /-- ids of contexts on which `terminate` has been called -/
  termReq : List Nat := []
  /-- `max_runtime` in ms (0 = no limit) and `m_runtime_timestamp` -/
  maxRuntime : Nat := 0
  runStart : Nat := 0
  /-- sleeps are ignored (`disable_sleep`) -/
  disableSleep : Bool := false
  /-- the SQF parser of the runtime (lexer + parser + code generation against the live registry),
      used by `compile`; supplied by whoever builds the machine -/
  parse : List B → Option (List Instr) := fun _ => none

/-! ### diagnostics -/

def levelOf (code : Nat) : Nat :=
  match Diag.diagTable.find? (fun e => e.1 == code) with
  | some e => e.2
  | none => 4

/-- `runtime::__logmsg` -/
def M.log (m : M) (code : Nat) : M :=
  let lvl := levelOf code
  let m := { m with diags := m.diags ++ [{ code := code, level := lvl }] }
  if lvl ≤ 1 then { m with err := true, msgs := m.msgs ++ [code] } else m

/-- one read of `std::chrono::system_clock::now()`: the virtual clock advances by one tick (1 ms) per read -/
def M.readClock (m : M) : Nat × M := (m.now, { m with now := m.now + 1 })

/-! ### variables (`value_scope`) -/

def varsGet (vs : List (Name × Val)) (n : Name) : Option Val :=
  match vs.find? (fun e => e.1 == lower n) with
  | some e => some e.2
  | none => none

def varsContains (vs : List (Name × Val)) (n : Name) : Bool := (varsGet vs n).isSome

def varsSet : List (Name × Val) → Name → Val → List (Name × Val)
  | [], n, v => [(lower n, v)]
  | e :: es, n, v => if e.1 == lower n then (e.1, v) :: es else e :: varsSet es n v

/-- `operator[]`/`at()` on a non-const scope creates a nil entry when the key is missing -/
def varsTouch (vs : List (Name × Val)) (n : Name) : List (Name × Val) :=
  if varsContains vs n then vs else vs ++ [(lower n, .nil)]

def nsGet (nss : List (List (Name × Val))) (id : Nat) : List (Name × Val) := nss.getD id []
def nsSet (nss : List (List (Name × Val))) (id : Nat) (vs : List (Name × Val)) : List (List (Name × Val)) :=
  nss.set id vs

/-! ### heap -/

def M.arr (m : M) (id : Nat) : List Val := m.heap.getD id []
def M.setArr (m : M) (id : Nat) (xs : List Val) : M := { m with heap := m.heap.set id xs }
def M.alloc (m : M) (xs : List Val) : M × Nat := ({ m with heap := m.heap ++ [xs] }, m.heap.length)
def M.map (m : M) (id : Nat) : List (Val × Val) := m.maps.getD id []
def M.setMap (m : M) (id : Nat) (kv : List (Val × Val)) : M := { m with maps := m.maps.set id kv }
def M.allocMap (m : M) (kv : List (Val × Val)) : M × Nat := ({ m with maps := m.maps ++ [kv] }, m.maps.length)

end Sqf.VM
