import SqfModel.VM.State
/-!
# The value-stack / frame-stack API of `context.h`

Every instruction and operator of the VM model touches the stacks only through these functions, as
the C++ funnels every access through `context`.
-/
namespace Sqf.VM
open Sqf

namespace Ctx

/-- `value_stack_pos` of the current frame (0 without a frame) -/
def base (c : Ctx) : Nat := match c.frames with | f :: _ => f.base | [] => 0

/-- `context::push_value` -/
def pushV (c : Ctx) (v : Val) : Ctx := { c with vals := c.vals ++ [v] }

/-- `context::pop_value()` (frame boundaries respected): refuses to go below the current frame's base -/
def popV (c : Ctx) : Option (Val × Ctx) :=
  match c.frames with
  | [] => none
  | f :: _ =>
    if c.vals.length ≤ f.base then none
    else match c.vals.getLast? with
      | none => none
      | some v => some (v, { c with vals := c.vals.dropLast })

/-- `context::pop_value(true)`: ignores frame boundaries -/
def popVAny (c : Ctx) : Option (Val × Ctx) :=
  match c.vals.getLast? with
  | none => none
  | some v => some (v, { c with vals := c.vals.dropLast })

/-- `context::clear_values()`: drop the current frame's region -/
def clearV (c : Ctx) : Ctx :=
  match c.frames with
  | [] => c
  | f :: _ => { c with vals := c.vals.take f.base }

/-- `context::push_frame`: records the current stack height as the frame's base -/
def pushF (c : Ctx) (f : Frame) : Ctx :=
  { c with frames := { f with base := c.vals.length } :: c.frames }

/-- `context::pop_frame` -/
def popF (c : Ctx) : Ctx := { c with frames := c.frames.tail }

/-- replace the current frame -/
def setTop (c : Ctx) (f : Frame) : Ctx :=
  match c.frames with
  | [] => c
  | _ :: fs => { c with frames := f :: fs }

def top? (c : Ctx) : Option Frame := c.frames.head?

/-- frame completion in `execute_do`: forward the top value of the region, or nil when the region is
    empty (nothing at all when this was the context's last frame), drop the rest of the region, pop
    the frame -/
def complete (c : Ctx) : Ctx :=
  match c.frames with
  | [] => c
  | f :: rest =>
    let topv := if c.vals.length ≤ f.base then none else c.vals.getLast?
    let vs := c.vals.take f.base
    { c with frames := rest, vals := match topv with
        | some v => vs ++ [v]
        | none => if rest.isEmpty then vs else vs ++ [.nil] }

/-- `context::get_variable`: innermost frame first, stops at a frame that does not bubble -/
def getVar (c : Ctx) (n : Name) : Option Val :=
  go c.frames
where
  go : List Frame → Option Val
    | [] => none
    | f :: fs =>
      match varsGet f.vars n with
      | some v => some v
      | none => if f.bubble then go fs else none

end Ctx

end Sqf.VM
