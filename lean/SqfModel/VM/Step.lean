import SqfModel.VM.Ops
/-!
# `frame::next(runtime)`, the behaviours' `enact`, and one iteration of `execute_do`
-/
namespace Sqf.VM
open Sqf

/-- `frame::behavior::result` (with the exchanged instruction set attached) -/
inductive BRes where
  | ok | fail | seekStart | seekEnd
  | exchange (code : List Instr)

/-- a C++ exception escaping the VM (`vector::at` out of range) is an outcome of the model -/
structure Crash where
  tag : Name

/-- machine state extended with "an exception escaped" -/
structure Out where
  m : M
  crash : Option Name := none

def typeMismatch (m : M) (v : Val) : M :=
  match v with
  | .nil => m.log Diag.runtime_TypeMissmatchWeak
  | _ => m.log Diag.runtime_TypeMissmatch

/-- set the variables of the current frame -/
def M.setVars (m : M) (vars : List (Name × Val)) : M :=
  match m.top? with
  | some f => m.setTop { f with vars := vars }
  | none => m

def M.popV (m : M) : Option Val × M :=
  match m.ctx.popV with
  | some (v, c) => (some v, { m with ctx := c })
  | none => (none, m)

def M.pushV (m : M) (v : Val) : M := { m with ctx := m.ctx.pushV v }
def M.clearV (m : M) : M := { m with ctx := m.ctx.clearV }

/-- "the array changed size" warning and the re-read size -/
def resize (m : M) (arr size : Nat) : M × Nat :=
  let n := (m.arr arr).length
  if size != n then (m.log Diag.runtime_ArraySizeChanged, n) else (m, size)

/-- `enact` of an exit behaviour on the current frame. Returns the machine, the behaviour's new
    private state, the result, and whether `vector::at` threw. -/
def enact (b : Beh) (m : M) : M × Beh × BRes × Bool :=
  match b with
  | .count arr idx size cnt =>
    let (res, m1) := m.popV
    let (m2, cnt') := match res with
      | some (.bool t) => (m1, if t then cnt + 1 else cnt)
      | some v => (typeMismatch m1 v, cnt)
      | none => (m1.log Diag.runtime_CallstackFoundNoValue, cnt)
    let (m3, size') := resize m2 arr size
    let idx' := idx + 1
    if idx' == size' then (m3.pushV (num cnt'), .count arr idx' size' cnt', .ok, false)
    else
      let xs := m3.arr arr
      if idx' ≥ xs.length then (m3.clearV.setVars [], .count arr idx' size' cnt', .ok, true)
      else ((m3.clearV).setVars [(n!"_x", nth xs idx')], .count arr idx' size' cnt', .seekStart, false)
  | .whileB inCode loops cond code =>
    if !inCode then
      let (res, m1) := m.popV
      match res with
      | some (.bool true) =>
        let m2 := m1.clearV.setVars []
        if code.isEmpty then (m2, b, .seekStart, false)
        else (m2, .whileB true loops cond code, .exchange code, false)
      | some (.bool false) => (m1, b, .ok, false)
      | some v => (typeMismatch m1 v, b, .ok, false)
      | none => (m1.log Diag.runtime_CallstackFoundNoValue, b, .ok, false)
    else
      let loops' := if !m.ctx.canSuspend then loops + 1 else loops
      if !m.ctx.canSuspend && m.maxLoops > 0 && loops' ≥ m.maxLoops then (m, .whileB true loops' cond code, .ok, false)
      else (m.clearV.setVars [], .whileB false loops' cond code, .exchange cond, false)
  | .forB var to step =>
    let cur := match m.top? with | some f => (varsGet f.vars var).getD .nil | none => .nil
    match cur with
    | .num v =>
      let updated := Dec.add v step
      let stepNeg := step.neg && step.mant != 0
      let stop := if !stepNeg then Dec.lt to updated else Dec.lt updated to
      if stop then (m, b, .ok, false)
      else (m.clearV.setVars [(lower var, .num updated)], b, .seekStart, false)
    | _ => (m.log Diag.runtime_ForStepVariableTypeMissmatch, b, .ok, false)
  | .forEach arr idx size =>
    let (m1, size') := resize m arr size
    let idx' := idx + 1
    if idx' == size' then (m1, .forEach arr idx' size', .ok, false)
    else
      let xs := m1.arr arr
      if idx' ≥ xs.length then (m1.clearV.setVars [], .forEach arr idx' size', .ok, true)
      else (m1.clearV.setVars [(n!"_foreachindex", num idx'), (n!"_x", nth xs idx')], .forEach arr idx' size', .seekStart, false)
  | .select arr out idx size =>
    let (res, m1) := m.popV
    let xs0 := m1.arr arr
    let (m2, out', thrown) := match res with
      | some (.bool t) =>
        if t then (if idx ≥ xs0.length then (m1, out, true) else (m1, out ++ [nth xs0 idx], false))
        else (m1, out, false)
      | some v => (typeMismatch m1 v, out, false)
      | none => (m1.log Diag.runtime_CallstackFoundNoValue, out, false)
    if thrown then (m2, b, .ok, true) else
    let (m3, size') := resize m2 arr size
    let idx' := idx + 1
    if idx' == size' then
      let (m4, id) := m3.alloc out'
      (m4.pushV (.ref id), .select arr out' idx' size', .ok, false)
    else
      let xs := m3.arr arr
      if idx' ≥ xs.length then (m3.clearV.setVars [], .select arr out' idx' size', .ok, true)
      else (m3.clearV.setVars [(n!"_x", nth xs idx')], .select arr out' idx' size', .seekStart, false)
  | .apply arr out idx size =>
    let (res, m1) := m.popV
    let (m2, out') := match res with
      | some v => (m1, out ++ [v])
      | none => (m1.log Diag.runtime_CallstackFoundNoValue, out)
    let (m3, size') := resize m2 arr size
    let idx' := idx + 1
    if idx' == size' then
      let (m4, id) := m3.alloc out'
      (m4.pushV (.ref id), .apply arr out' idx' size', .ok, false)
    else
      let xs := m3.arr arr
      if idx' ≥ xs.length then (m3.clearV.setVars [], .apply arr out' idx' size', .ok, true)
      else (m3.clearV.setVars [(n!"_x", nth xs idx')], .apply arr out' idx' size', .seekStart, false)
  | .findIf arr idx size =>
    let (res, m1) := m.popV
    match res with
    | some (.bool true) => (m1.pushV (num idx), b, .ok, false)
    | _ =>
      let m2 := match res with
        | some (.bool _) => m1
        | some _ => m1.log Diag.runtime_TypeMissmatch
        | none => m1.log Diag.runtime_CallstackFoundNoValue
      let (m3, size') := resize m2 arr size
      let idx' := idx + 1
      if idx' == size' then (m3.pushV (.num (Dec.ofInt (-1))), .findIf arr idx' size', .ok, false)
      else
        let xs := m3.arr arr
        if idx' ≥ xs.length then (m3.clearV.setVars [], .findIf arr idx' size', .ok, true)
        else (m3.clearV.setVars [(n!"_x", nth xs idx')], .findIf arr idx' size', .seekStart, false)
  | .isNil =>
    let (res, m1) := m.popV
    match res with
    | some v => (m1.pushV (.bool (match v with | .nil => true | _ => false)), b, .ok, false)
    | none => (m1.log Diag.runtime_CallstackFoundNoValue, b, .ok, false)
  | .switchB switched =>
    if !switched then
      -- `frame[magic]` on the non-const frame creates the entry when it is missing
      let m1 := match m.top? with | some f => m.setTop { f with vars := varsTouch f.vars switchMagic } | none => m
      let cur := match m1.top? with | some f => (varsGet f.vars switchMagic).getD .nil | none => .nil
      match cur with
      | .sw _ _ _ tgt => if tgt.isEmpty then (m1, .switchB true, .ok, false) else (m1, .switchB true, .exchange tgt, false)
      | _ => (m1, .switchB true, .fail, false)
    else (m, b, .ok, false)
  | .waitUntil count =>
    let count' := count + 1
    let (res, m1) := m.popV
    let cont (mm : M) : M × Beh × BRes × Bool :=
      let c := { mm.ctx with suspended := true, wakeup := mm.now + 10 }
      (({ mm with ctx := c }).clearV.setVars [], .waitUntil count', .seekStart, false)
    match res with
    | some (.bool _) => (m1, .waitUntil count', .ok, false)
    | some _ => cont (m1.log Diag.runtime_TypeMissmatch)
    | none =>
      if count' > 30000 && m1.ctx.canSuspend then (m1.log Diag.runtime_WaitUntilMaxLoopReached, .waitUntil count', .ok, false)
      else cont (m1.log Diag.runtime_CallstackFoundNoValue)
  | .catchB _ => (m, b, .ok, false)
  | .exceptB _ _ => (m, b, .ok, false)

/-- result of `frame::next(runtime)` -/
inductive NextRes where
  | ok | done | hang | crash

/-- `frame::next(runtime)` on the current frame (fuel bounds the `goto start` re-entries) -/
def frameNext : Nat → M → M × NextRes
  | 0, m => (m, .hang)
  | fuel + 1, m =>
    match m.top? with
    | none => (m, .done)
    | some f =>
      let size := f.code.length
      -- frame::next()
      let (pc', res) : Nat × NextRes :=
        if f.pc == size + 1 then (f.pc, .done)
        else (f.pc + 1, if f.pc + 1 == size + 1 then .done else .ok)
      let f1 := { f with pc := pc' }
      let m1 := m.setTop f1
      if pc' == size + 1 && !f1.die then
        match f1.exitB with
        | none => (m1, res)
        | some b =>
          let (m2, b', r, thrown) := enact b m1
          if thrown then (m2, .crash) else
          -- the behaviour may have changed the frame's variables; re-read it
          match m2.top? with
          | none => (m2, res)
          | some f2 =>
            let f3 := { f2 with exitB := some b' }
            match r with
            | .seekEnd => (m2.setTop { f3 with pc := f3.code.length + 1 }, .done)
            | .seekStart => frameNext fuel ((m2.setTop { f3 with pc := 0 }).clearV)
            | .exchange code => frameNext fuel (m2.setTop { f3 with code := code, pc := 0 })
            | .ok | .fail => (m2.setTop f3, res)
      else (m1, res)

/-! ### instructions -/

def firstIsUnderscore (n : Name) : Bool := match n with | 95 :: _ => true | _ => false

/-- `instruction::execute` -/
def execInstr (i : Instr) (m : M) : M :=
  match i with
  | .push v => m.pushV v
  | .endStatement => m.clearV
  | .callNular n =>
    match nularOp n m with
    | some (m', v) => m'.pushV v
    | none => m.log Diag.runtime_UnknownInputTypeCombinationNular
  | .callUnary n =>
    let (r, m1) := m.popV
    match r with
    | none => m1.log (if m.ctx.weak then Diag.runtime_NoValueFoundForRightArgumentWeak else Diag.runtime_NoValueFoundForRightArgument)
    | some .nil => m1.log Diag.runtime_NilValueFoundForRightArgumentWeak
    | some rv =>
      match unaryOp n rv m1 with
      | some (m', v) => m'.pushV v
      | none => m1.log Diag.runtime_UnknownInputTypeCombinationUnary
  | .callBinary n _ =>
    let (r, m1) := m.popV
    match r with
    | none => m1.log (if m.ctx.weak then Diag.runtime_NoValueFoundForRightArgumentWeak else Diag.runtime_NoValueFoundForRightArgument)
    | some .nil => m1.log Diag.runtime_NilValueFoundForRightArgumentWeak
    | some rv =>
      let (l, m2) := m1.popV
      match l with
      | none => m2.log (if m.ctx.weak then Diag.runtime_NoValueFoundForRightArgumentWeak else Diag.runtime_NoValueFoundForRightArgument)
      | some .nil => m2.log Diag.runtime_NilValueFoundForRightArgumentWeak
      | some lv =>
        match binaryOp n lv rv m2 with
        | some (m', v) => m'.pushV v
        | none => m2.log Diag.runtime_UnknownInputTypeCombinationBinary
  | .assignTo n =>
    let (v, m1) := m.popV
    match v with
    | none => m1.log (if m.ctx.weak then Diag.runtime_FoundNoValueWeak else Diag.runtime_FoundNoValue)
    | some val =>
      let m2 := match val with | .nil => m1.log Diag.runtime_AssigningNilValue | _ => m1
      if n.isEmpty then m2
      else if firstIsUnderscore n then
        match assignLocal m2.ctx.frames n val with
        | some fs => { m2 with ctx := { m2.ctx with frames := fs } }
        | none =>
          match m2.top? with
          | some f => m2.setTop { f with vars := varsSet f.vars n val }
          | none => m2
      else
        match m2.top? with
        | some f => { m2 with nss := nsSet m2.nss f.globals (varsSet (nsGet m2.nss f.globals) n val) }
        | none => m2
  | .assignToLocal n =>
    let (v, m1) := m.popV
    if n.isEmpty then m1 else
    match v with
    | none => m1.log (if m.ctx.weak then Diag.runtime_FoundNoValueWeak else Diag.runtime_FoundNoValue)
    | some val =>
      let m2 := match val with | .nil => m1.log Diag.runtime_AssigningNilValue | _ => m1
      match m2.top? with
      | some f => m2.setTop { f with vars := varsSet f.vars n val }
      | none => m2
  | .getVariable n =>
    if firstIsUnderscore n then
      match m.ctx.getVar n with
      | some v => m.pushV v
      | none => (m.log Diag.runtime_VariableNotFound).pushV .nil
    else
      let g := match m.top? with | some f => f.globals | none => 0
      match varsGet (nsGet m.nss g) n with
      | some v => m.pushV v
      | none => (m.log Diag.runtime_VariableNotFound).pushV .nil
  | .makeArray k =>
    -- pop k values, last element first; a missing value leaves the remaining slots nil
    let rec fill : Nat → M → List Val → M × List Val
      | 0, mm, acc => (mm, acc)
      | j + 1, mm, acc =>
        match mm.popV with
        | (some v, mm') => fill j mm' (v :: acc)
        | (none, mm') => (mm'.log Diag.runtime_StackCorruptionMissingValues, List.replicate (j + 1) .nil ++ acc)
    let (m1, xs) := fill k m []
    let (m2, id) := m1.alloc xs
    m2.pushV (.ref id)

/-- result of one `assembly_step` -/
inductive StepRes where
  | ok | empty | runtimeError | hang | crash
deriving DecidableEq, Repr

/-- `execute_do(runtime, 1)`: any number of frame completions, then one instruction (or `empty`). -/
def step : Nat → M → M × StepRes
  | 0, m => (m, .hang)
  | fuel + 1, m =>
    if m.exitReq then (m, .ok)
    else if m.ctx.suspended then (m, .ok)
    else if m.ctx.frames.isEmpty then (m, .empty)
    else
      let nframes := m.ctx.frames.length
      match frameNext (fuel + 1) m with
      | (m1, .hang) => (m1, .hang)
      | (m1, .crash) => (m1, .crash)
      | (m1, .done) =>
        if m1.ctx.frames.length == nframes then step fuel { m1 with ctx := m1.ctx.complete }
        else (m1, .ok)
      | (m1, .ok) =>
        match m1.top? with
        | none => (m1, .empty)
        | some f =>
          match f.code[f.pc - 1]? with
          | none => (m1, .ok)
          | some i =>
            let m2 := execInstr i m1
            if !m2.err then ({ m2 with msgs := [] }, .ok)
            else
              let m3 := { m2 with msgs := [] }
              match findRecover m3.ctx.frames 0 with
              | some idx =>
                let (m4, id) := m3.alloc (m2.msgs.map (fun _ => Val.other n!"msg"))
                let m5 := m4.pushV (.strace (.ref id))
                let m6 := { m5 with ctx := { m5.ctx with frames := m5.ctx.frames.drop idx } }
                let (m7, _) := recoverAt m6 0
                ({ m7 with err := false }, .ok)
              | none =>
                ({ (m3.log Diag.runtime_Stacktrace) with err := false }, .runtimeError)

/-- run until the context is empty / an error / a step limit -/
def runSteps : Nat → M → M × StepRes × Nat
  | 0, m => (m, .ok, 0)
  | n + 1, m =>
    match step (4 * (m.ctx.frames.length + 4) + 100000) m with
    | (m', .ok) => let (m'', r, k) := runSteps n m'; (m'', r, k + 1)
    | (m', r) => (m', r, 1)

end Sqf.VM
