import SqfModel.VM.Ops
/-!
# `frame::next(runtime)`, the behaviours' `enact`, and one iteration of `execute_do`
-/
namespace Sqf.VM
open Sqf

/-- `frame::behavior::result` (with the exchanged instruction set attached) -/
inductive BRes where
  | ok | fail | seekStart | seekEnd
  | exchange (code : List Instr)

/-- a C++ exception escaping the VM (`vector::at` out of range) is an outcome of the model -/
structure Crash where
  tag : Name

/-- machine state extended with "an exception escaped" -/
structure Out where
  m : M
  crash : Option Name := none

def M.setTop (m : M) (f : Frame) : M := { m with ctx := m.ctx.setTop f }

/-- set the variables of the current frame -/
def M.setVars (m : M) (vars : List (Name × Val)) : M :=
  match m.top? with
  | some f => m.setTop { f with vars := vars }
  | none => m

def M.popV (m : M) : Option Val × M :=
  match m.ctx.popV with
  | some (v, c) => (some v, { m with ctx := c })
  | none => (none, m)

def M.pushV (m : M) (v : Val) : M := { m with ctx := m.ctx.pushV v }
def M.clearV (m : M) : M := { m with ctx := m.ctx.clearV }

/-! ### behaviours

A behaviour's `enact` first (for most behaviours) pops the value its frame's code left, then
*decides* — a pure function of its private state, the popped value and the heap — on a list of
actions that only concern the current frame's region and variables. `runAct` is the only place where
a behaviour's effect reaches the machine. -/

inductive TAct where
  | log (code : Nat)
  | pushV (v : Val)
  /-- allocate a fresh array and push a reference to it -/
  | pushNewArr (xs : List Val)
  | clearV
  /-- `frame.clear_value_scope()` followed by the given bindings -/
  | setVars (vs : List (Name × Val))
  /-- `frame[name]` on the non-const frame: creates a nil entry when missing -/
  | touchVar (n : Name)
  /-- `context.suspend(ms)` -/
  | suspend (ms : Nat)

def runAct (a : TAct) (m : M) : M :=
  match a with
  | .log code => m.log code
  | .pushV v => m.pushV v
  | .pushNewArr xs => let (m', id) := m.alloc xs; m'.pushV (.ref id)
  | .clearV => m.clearV
  | .setVars vs => m.setVars vs
  | .touchVar n =>
    match m.top? with
    | some f => m.setTop { f with vars := varsTouch f.vars n }
    | none => m
  | .suspend ms =>
    let (t, m1) := m.readClock
    { m1 with ctx := { m1.ctx with suspended := true, wakeup := t + ms } }

def runActs : List TAct → M → M
  | [], m => m
  | a :: as, m => runActs as (runAct a m)

def mismatchAct (v : Val) : TAct :=
  match v with
  | .nil => .log Diag.runtime_TypeMissmatchWeak
  | _ => .log Diag.runtime_TypeMissmatch

/-- "the array changed size" warning and the re-read size -/
def resizeActs (m : M) (arr size : Nat) : List TAct × Nat :=
  let n := (m.arr arr).length
  if size != n then ([.log Diag.runtime_ArraySizeChanged], n) else ([], size)

/-- does this behaviour start by popping the value its code left? -/
def needsPop : Beh → Bool
  | .count _ _ _ _ | .select _ _ _ _ | .apply _ _ _ _ | .findIf _ _ _ | .isNil | .waitUntil _ => true
  | .whileB inCode _ _ _ => !inCode
  | _ => false

/-- the continuation of an iteration over `arr`: bind `_x` (and more) to element `idx'` and restart,
    or report that `vector::at` throws because the array shrank below the index -/
def iterNext (m : M) (arr idx' : Nat) (extra : List (Name × Val)) (b' : Beh) : List TAct × Beh × BRes × Bool :=
  let xs := m.arr arr
  if idx' ≥ xs.length then ([.clearV, .setVars []], b', .ok, true)
  else ([.clearV, .setVars (extra ++ [(n!"_x", nth xs idx')])], b', .seekStart, false)

/-- the decision part of `enact`: actions, new private state, result, "an exception escaped" -/
def behDecide (b : Beh) (res : Option Val) (m : M) : List TAct × Beh × BRes × Bool :=
  match b with
  | .count arr idx size cnt =>
    let (a1, cnt') : List TAct × Nat := match res with
      | some (.bool t) => ([], if t then cnt + 1 else cnt)
      | some v => ([mismatchAct v], cnt)
      | none => ([.log Diag.runtime_CallstackFoundNoValue], cnt)
    let (a2, size') := resizeActs m arr size
    let idx' := idx + 1
    if idx' ≥ size' then (a1 ++ a2 ++ [.pushV (num cnt')], .count arr idx' size' cnt', .ok, false)
    else
      let (a3, b', r, t) := iterNext m arr idx' [] (.count arr idx' size' cnt')
      (a1 ++ a2 ++ a3, b', r, t)
  | .whileB inCode loops cond code =>
    if !inCode then
      match res with
      | some (.bool true) =>
        if code.isEmpty then
          -- nothing to exchange to: the iteration still counts towards the cap
          let loops' := if !m.ctx.canSuspend then loops + 1 else loops
          if !m.ctx.canSuspend && m.maxLoops > 0 && loops' ≥ m.maxLoops then
            ([.clearV, .setVars []], .whileB false loops' cond code, .ok, false)
          else ([.clearV, .setVars []], .whileB false loops' cond code, .seekStart, false)
        else ([.clearV, .setVars []], .whileB true loops cond code, .exchange code, false)
      | some (.bool false) => ([], b, .ok, false)
      | some v => ([mismatchAct v], b, .ok, false)
      | none => ([.log Diag.runtime_CallstackFoundNoValue], b, .ok, false)
    else
      let loops' := if !m.ctx.canSuspend then loops + 1 else loops
      if !m.ctx.canSuspend && m.maxLoops > 0 && loops' ≥ m.maxLoops then ([], .whileB true loops' cond code, .ok, false)
      else ([.clearV, .setVars []], .whileB false loops' cond code, .exchange cond, false)
  | .forB var to step =>
    let cur := match m.top? with | some f => (varsGet f.vars var).getD .nil | none => .nil
    match cur with
    | .num v =>
      let updated := Dec.add v step
      let stepNeg := step.neg && step.mant != 0
      let stop := if !stepNeg then Dec.lt to updated else Dec.lt updated to
      if stop then ([.touchVar var], b, .ok, false)
      else ([.clearV, .setVars [(lower var, .num updated)]], b, .seekStart, false)
    | _ => ([.touchVar var, .log Diag.runtime_ForStepVariableTypeMissmatch], b, .ok, false)
  | .forEach arr idx size =>
    let (a2, size') := resizeActs m arr size
    let idx' := idx + 1
    if idx' ≥ size' then (a2, .forEach arr idx' size', .ok, false)
    else
      let (a3, b', r, t) := iterNext m arr idx' [(n!"_foreachindex", num idx')] (.forEach arr idx' size')
      (a2 ++ a3, b', r, t)
  | .select arr out idx size =>
    let xs0 := m.arr arr
    let (a1, out') : List TAct × List Val := match res with
      | some (.bool t) =>
        -- an element the code itself removed is not selected
        if t then (if idx ≥ xs0.length then ([], out) else ([], out ++ [nth xs0 idx]))
        else ([], out)
      | some v => ([mismatchAct v], out)
      | none => ([.log Diag.runtime_CallstackFoundNoValue], out)
    let (a2, size') := resizeActs m arr size
    let idx' := idx + 1
    if idx' ≥ size' then (a1 ++ a2 ++ [.pushNewArr out'], .select arr out' idx' size', .ok, false)
    else
      let (a3, b', r, t) := iterNext m arr idx' [] (.select arr out' idx' size')
      (a1 ++ a2 ++ a3, b', r, t)
  | .apply arr out idx size =>
    let (a1, out') : List TAct × List Val := match res with
      | some v => ([], out ++ [v])
      | none => ([.log Diag.runtime_CallstackFoundNoValue], out)
    let (a2, size') := resizeActs m arr size
    let idx' := idx + 1
    if idx' ≥ size' then (a1 ++ a2 ++ [.pushNewArr out'], .apply arr out' idx' size', .ok, false)
    else
      let (a3, b', r, t) := iterNext m arr idx' [] (.apply arr out' idx' size')
      (a1 ++ a2 ++ a3, b', r, t)
  | .findIf arr idx size =>
    match res with
    | some (.bool true) => ([.pushV (num idx)], b, .ok, false)
    | _ =>
      let a1 : List TAct := match res with
        | some (.bool _) => []
        | some _ => [.log Diag.runtime_TypeMissmatch]
        | none => [.log Diag.runtime_CallstackFoundNoValue]
      let (a2, size') := resizeActs m arr size
      let idx' := idx + 1
      if idx' ≥ size' then (a1 ++ a2 ++ [.pushV (.num (Dec.ofInt (-1)))], .findIf arr idx' size', .ok, false)
      else
        let (a3, b', r, t) := iterNext m arr idx' [] (.findIf arr idx' size')
        (a1 ++ a2 ++ a3, b', r, t)
  | .isNil =>
    match res with
    | some v => ([.pushV (.bool (match v with | .nil => true | _ => false))], b, .ok, false)
    | none => ([.log Diag.runtime_CallstackFoundNoValue], b, .ok, false)
  | .switchB switched =>
    if !switched then
      let cur := match m.top? with | some f => (varsGet f.vars switchMagic).getD .nil | none => .nil
      match cur with
      | .sw _ _ _ tgt =>
        if tgt.isEmpty then ([.touchVar switchMagic], .switchB true, .ok, false)
        else ([.touchVar switchMagic], .switchB true, .exchange tgt, false)
      | _ => ([.touchVar switchMagic], .switchB true, .fail, false)
    else ([], b, .ok, false)
  | .waitUntil count =>
    let count' := count + 1
    match res with
    | some (.bool true) => ([], .waitUntil count', .ok, false)
    | some (.bool false) => ([.suspend 10, .clearV, .setVars []], .waitUntil count', .seekStart, false)
    | some _ => ([.log Diag.runtime_TypeMissmatch, .suspend 10, .clearV, .setVars []], .waitUntil count', .seekStart, false)
    | none =>
      if count' > 30000 && m.ctx.canSuspend then ([.log Diag.runtime_WaitUntilMaxLoopReached], .waitUntil count', .ok, false)
      else ([.log Diag.runtime_CallstackFoundNoValue, .suspend 10, .clearV, .setVars []], .waitUntil count', .seekStart, false)
  | .catchB _ => ([], b, .ok, false)
  | .exceptB _ _ => ([], b, .ok, false)

/-- `enact` of an exit behaviour on the current frame. Returns the machine, the behaviour's new
    private state, the result, and whether `vector::at` threw. -/
def enact (b : Beh) (m : M) : M × Beh × BRes × Bool :=
  let pr : Option Val × M := if needsPop b then m.popV else (none, m)
  let d := behDecide b pr.1 pr.2
  (runActs d.1 pr.2, d.2.1, d.2.2.1, d.2.2.2)

/-- result of `frame::next(runtime)` -/
inductive NextRes where
  | ok | done | hang | crash
  /-- a behaviour restarted a frame that has nothing to execute -/
  | yield

/-- `frame::next()`: advance the position; `done` when it reaches (or already is at) the end -/
def advance (f : Frame) : Frame × NextRes :=
  if f.pc == f.code.length + 1 then (f, .done)
  else ({ f with pc := f.pc + 1 }, if f.pc + 1 == f.code.length + 1 then .done else .ok)

/-- apply the result of `enact` to the current frame; `none` = `goto start` -/
def settle (res : NextRes) (e : M × Beh × BRes × Bool) : M × Option NextRes :=
  if e.2.2.2 then (e.1, some .crash) else
  match e.1.top? with
  | none => (e.1, some res)
  | some f2 =>
    match e.2.2.1 with
    | .seekEnd => (e.1.setTop { f2 with exitB := some e.2.1, pc := f2.code.length + 1 }, some .done)
    | .seekStart => ((e.1.setTop { f2 with exitB := some e.2.1, pc := 0 }).clearV, none)
    | .exchange code => (e.1.setTop { f2 with exitB := some e.2.1, code := code, pc := 0 }, none)
    | .ok | .fail => (e.1.setTop { f2 with exitB := some e.2.1 }, some res)

/-- `frame::next(runtime)` on the current frame (fuel bounds the `goto start` re-entries) -/
def frameNext : Nat → M → M × NextRes
  | 0, m => (m, .hang)
  | fuel + 1, m =>
    match m.top? with
    | none => (m, .done)
    | some f =>
      let a := advance f
      let m1 := m.setTop a.1
      if a.1.pc == a.1.code.length + 1 && !a.1.die then
        match a.1.exitB with
        | none => (m1, a.2)
        | some b =>
          match settle a.2 (enact b m1) with
          | (m3, some r) => (m3, r)
          | (m3, none) =>
            -- restarted: if the frame has nothing to execute control goes back to `execute_do`
            match m3.top? with
            | some f3 => if f3.code.isEmpty then (m3, .yield) else frameNext fuel m3
            | none => frameNext fuel m3
      else (m1, a.2)

/-! ### instructions -/

def firstIsUnderscore (n : Name) : Bool := match n with | 95 :: _ => true | _ => false

/-- `instruction::execute` -/
def execInstr (i : Instr) (m : M) : M :=
  match i with
  | .push v => m.pushV v
  | .endStatement => m.clearV
  | .callNular n =>
    match nularOp n m with
    | some res => finishOp m res
    | none => m.log Diag.runtime_UnknownInputTypeCombinationNular
  | .callUnary n =>
    let (r, m1) := m.popV
    match r with
    | none => m1.log (if m.ctx.weak then Diag.runtime_NoValueFoundForRightArgumentWeak else Diag.runtime_NoValueFoundForRightArgument)
    | some .nil => (m1.log Diag.runtime_NilValueFoundForRightArgumentWeak).pushV .nil   -- an operation on nil yields nil
    | some rv =>
      match unaryOp n rv m1 with
      | some res => finishOp m1 res
      | none => m1.log Diag.runtime_UnknownInputTypeCombinationUnary
  | .callBinary n _ =>
    let (r, m1) := m.popV
    match r with
    | none => m1.log (if m.ctx.weak then Diag.runtime_NoValueFoundForRightArgumentWeak else Diag.runtime_NoValueFoundForRightArgument)
    | some .nil => ((m1.log Diag.runtime_NilValueFoundForRightArgumentWeak).popV.2).pushV .nil   -- both operands consumed
    | some rv =>
      let (l, m2) := m1.popV
      match l with
      | none => m2.log (if m.ctx.weak then Diag.runtime_NoValueFoundForRightArgumentWeak else Diag.runtime_NoValueFoundForRightArgument)
      | some .nil => (m2.log Diag.runtime_NilValueFoundForRightArgumentWeak).pushV .nil
      | some lv =>
        match binaryOp n lv rv m2 with
        | some res => finishOp m2 res
        | none => m2.log Diag.runtime_UnknownInputTypeCombinationBinary
  | .assignTo n =>
    let (v, m1) := m.popV
    match v with
    | none => m1.log (if m.ctx.weak then Diag.runtime_FoundNoValueWeak else Diag.runtime_FoundNoValue)
    | some val =>
      let m2 := match val with | .nil => m1.log Diag.runtime_AssigningNilValue | _ => m1
      if n.isEmpty then m2
      else if firstIsUnderscore n then
        match assignLocal m2.ctx.frames n val with
        | some fs => { m2 with ctx := { m2.ctx with frames := fs } }
        | none =>
          match m2.top? with
          | some f => m2.setTop { f with vars := varsSet f.vars n val }
          | none => m2
      else
        match m2.top? with
        | some f => { m2 with nss := nsSet m2.nss f.globals (varsSet (nsGet m2.nss f.globals) n val) }
        | none => m2
  | .assignToLocal n =>
    let (v, m1) := m.popV
    if n.isEmpty then m1 else
    match v with
    | none => m1.log (if m.ctx.weak then Diag.runtime_FoundNoValueWeak else Diag.runtime_FoundNoValue)
    | some val =>
      let m2 := match val with | .nil => m1.log Diag.runtime_AssigningNilValue | _ => m1
      match m2.top? with
      | some f => m2.setTop { f with vars := varsSet f.vars n val }
      | none => m2
  | .getVariable n =>
    if firstIsUnderscore n then
      match m.ctx.getVar n with
      | some v => m.pushV v
      | none => (m.log Diag.runtime_VariableNotFound).pushV .nil
    else
      let g := match m.top? with | some f => f.globals | none => 0
      match varsGet (nsGet m.nss g) n with
      | some v => m.pushV v
      | none => (m.log Diag.runtime_VariableNotFound).pushV .nil
  | .makeArray k =>
    -- pop k values, last element first; a missing value leaves the remaining slots nil
    let rec fill : Nat → M → List Val → M × List Val
      | 0, mm, acc => (mm, acc)
      | j + 1, mm, acc =>
        match mm.popV with
        | (some v, mm') => fill j mm' (v :: acc)
        | (none, mm') => (mm'.log Diag.runtime_StackCorruptionMissingValues, List.replicate (j + 1) .nil ++ acc)
    let (m1, xs) := fill k m []
    let (m2, id) := m1.alloc xs
    m2.pushV (.ref id)

/-- result of one `assembly_step` -/
inductive StepRes where
  | ok | empty | runtimeError | hang | crash
deriving DecidableEq, Repr

/-- search for a frame that takes the runtime error: the nearest frame with an error behaviour gets
    the stack trace; if it refuses (`try … catch` handles thrown values only, an `except__` that was
    used up) it is left and the search goes on further out. `none`: nobody took it. -/
def unwindErr : Nat → Ctx → Val → Ctx × Bool
  | 0, c, _ => (c, false)
  | fuel + 1, c, tr =>
    match findRecover c.frames 0 with
    | none => (c, false)
    | some idx =>
      let c1 := (c.pushV tr).dropFrames idx
      match recoverAt c1 true 0 with
      | (c2, .error) => unwindErr fuel (popClear c2) tr
      | (c2, _) => (c2, true)

/-- the outcome of the handler search: handled (continue in the handler frame), or unhandled (the
    stack trace is logged and the step fails); the flag is lowered either way -/
def finishErr (m4 : M) (u : Ctx × Bool) : M × StepRes :=
  if u.2 then ({ m4 with ctx := u.1, err := false }, .ok)
  else ({ (({ m4 with ctx := u.1 } : M).log Diag.runtime_Stacktrace) with err := false }, .runtimeError)

/-- the error-flag handling of `execute_do` after an instruction has been executed -/
def afterInstr (m2 : M) : M × StepRes :=
  if !m2.err then ({ m2 with msgs := [] }, .ok)
  else
    -- the stack trace (payload: the error messages) is handed to the nearest handler frame
    let m4 := (({ m2 with msgs := [] } : M).alloc (m2.msgs.map (fun _ => Val.other n!"msg"))).1
    finishErr m4 (unwindErr (m2.ctx.frames.length + 1) m2.ctx (.strace (.ref m2.heap.length)))

/-- deadline test of `execute_do` (one clock read when a limit is configured): `none` = go on -/
def deadline (m1 : M) : Option (M × StepRes) × M :=
  if m1.maxRuntime != 0 then
    if m1.runStart + m1.maxRuntime < m1.readClock.1 then
      -- reported, flag lowered, exit requested; the run did not succeed
      (some ({ (m1.readClock.2.log Diag.runtime_MaximumRuntimeReached) with exitReq := true, err := false }, .runtimeError), m1.readClock.2)
    else (none, m1.readClock.2)
  else (none, m1)

/-- a restart of a frame without instructions counts like an instruction (slice budget, time limit) -/
def yieldStep (m1 : M) : M × StepRes :=
  match deadline m1 with
  | (some r, _) => r
  | (none, m2) => (m2, .ok)

/-- fetch and execute the instruction the current frame points at -/
def fetchExec (m1 : M) : M × StepRes :=
  match m1.top? with
  | none => (m1, .empty)
  | some f =>
    match f.code[f.pc - 1]? with
    | none => (m1, .ok)
    | some i =>
      match deadline m1 with
      | (some r, _) => r
      | (none, m2) => afterInstr (execInstr i m2)

/-- `execute_do(runtime, 1)`: any number of frame completions, then one instruction (or `empty`). -/
def step : Nat → M → M × StepRes
  | 0, m => (m, .hang)
  | fuel + 1, m =>
    if m.exitReq then (m, .ok)
    else if m.ctx.suspended then (m, .ok)
    else if m.ctx.frames.isEmpty then (m, .empty)
    else
      match frameNext (fuel + 1) m with
      | (m1, .hang) => (m1, .hang)
      | (m1, .crash) => (m1, .crash)
      | (m1, .yield) =>
        if m1.err then
          match afterInstr m1 with
          | (m2, .ok) => step fuel m2
          | (m2, r2) => (m2, r2)
        else yieldStep m1
      | (m1, r) =>
        if m1.err then
          -- an exit behaviour raised an error: handled right away, like an error of an instruction
          match afterInstr m1 with
          | (m2, .ok) => step fuel m2
          | (m2, r2) => (m2, r2)
        else
          match r with
          | .done =>
            if m1.ctx.frames.length == m.ctx.frames.length then step fuel { m1 with ctx := m1.ctx.complete }
            else (m1, .ok)
          | _ => fetchExec m1

/-- run until the context is empty / an error / a step limit -/
def runSteps : Nat → M → M × StepRes × Nat
  | 0, m => (m, .ok, 0)
  | n + 1, m =>
    match step (4 * (m.ctx.frames.length + 4) + 100000) m with
    | (m', .ok) => let (m'', r, k) := runSteps n m'; (m'', r, k + 1)
    | (m', r) => (m', r, 1)

end Sqf.VM
