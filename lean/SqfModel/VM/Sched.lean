import SqfModel.VM.Run
/-!
# The scheduler: `runtime::execute(action::start)` (`src/runtime/runtime.cpp`)

Round robin over `m_contexts`, one slice of at most `sliceLen` instructions per context and round;
suspended contexts are skipped until their wake-up time; finished contexts are erased (with the index
fixed up); spawned contexts are appended and join the current round.
-/
namespace Sqf.VM
open Sqf

/-- `execute_do(runtime, n)`: at most `n` instructions of the active context -/
def slice : Nat → M → M × StepRes
  | 0, m => (m, .ok)
  | n + 1, m =>
    if m.exitReq || m.ctx.suspended then (m, .ok)
    else if m.ctx.frames.isEmpty then (m, .empty)
    else match step 200000 m with
      | (m', .ok) => slice n m'
      | (m', r) => (m', r)

/-- the runtime: all contexts in scheduling order plus the shared machine state (`m.ctx` is scratch) -/
structure RT where
  ctxs : List Ctx
  m : M

inductive RunState where
  | empty | halted | haltedError
deriving DecidableEq, Repr

/-- outcome of `execute(start)` -/
structure StartRes where
  rt : RT
  res : StepRes
  state : RunState

def finishStart (ctxs : List Ctx) (m : M) (res : StepRes) : StartRes :=
  let st : RunState := match res with
    | .empty => .empty
    | .ok => .halted
    | _ => .haltedError
  if m.exitReq then { rt := { ctxs := [], m := m }, res := res, state := .empty }
  else { rt := { ctxs := ctxs, m := m }, res := res, state := st }

/-- the slice one context gets when the scheduler reaches it: a suspended context is only resumed
    when the clock has reached its wake-up time (one clock read), otherwise nothing of it executes -/
def schedOne (sliceLen : Nat) (c : Ctx) (m : M) : M × StepRes :=
  let m0 := { m with ctx := c, spawned := [] }
  if c.suspended then
    let now := m0.readClock.1
    let m1 := m0.readClock.2
    if c.wakeup ≤ now then slice sliceLen { m1 with ctx := { c with suspended := false } }
    -- a script that sleeps executes no instruction: the time limit of the run is tested here as well
    else if m1.maxRuntime != 0 && m1.runStart + m1.maxRuntime < now then
      ({ (m1.log Diag.runtime_MaximumRuntimeReached) with exitReq := true, err := false }, .runtimeError)
    else (m1, .ok)
  else slice sliceLen m0

/-- has `terminate` been called on this context? -/
def isTerminated (c : Ctx) (m : M) : Bool := c.terminate || m.termReq.contains c.id

/-- a context that ends with a value left on its stack reports it (`print_context_work_to_log_on_exit`) -/
def reportValue (c : Ctx) (m : M) : M :=
  if c.vals.isEmpty then m else m.log Diag.runtime_ContextValuePrint

/-- remove context number `i` from the scheduling list and from the set of live script handles -/
def dropCtx (ctxs : List Ctx) (i : Nat) (c : Ctx) (m : M) : List Ctx × M :=
  (ctxs.eraseIdx i, { m with alive := m.alive.filter (· != c.id) })

/-- the two nested loops of `execute(start)`; `i` = index of the context to run next, `res` = result
    of the last slice. `sliceLen` is 150 in the implementation. -/
def sched (sliceLen : Nat) : Nat → List Ctx → Nat → M → StepRes → StartRes
  | 0, ctxs, _, m, _ => { rt := { ctxs := ctxs, m := m }, res := .hang, state := .halted }
  | fuel + 1, ctxs, i, m, res =>
    if ctxs.isEmpty then finishStart ctxs m res
    else
      match ctxs[i]? with
      | none => sched sliceLen fuel ctxs 0 m res          -- end of the `for`, next round of the `while`
      | some c =>
        -- a context on which `terminate` was called is dropped at its scheduling point
        if isTerminated c m then
          let d := dropCtx ctxs i c m
          if d.1.isEmpty then finishStart d.1 d.2 .empty else sched sliceLen fuel d.1 i d.2 .empty
        else
        let o := schedOne sliceLen c m
        let ctxs1 := ctxs.set i o.1.ctx ++ o.1.spawned
        let m2 := { o.1 with spawned := [] }
        if m2.exitReq then finishStart [] m2 o.2
        else
          match o.2 with
          | .empty =>
            let d := dropCtx ctxs1 i c (reportValue o.1.ctx m2)
            if d.1.isEmpty then finishStart d.1 d.2 .empty
            else sched sliceLen fuel d.1 i d.2 .empty
          | .ok => sched sliceLen fuel ctxs1 (i + 1) m2 .ok
          | r => finishStart ctxs1 m2 r

/-- `execute(action::start)` on a runtime whose main script has been loaded -/
def start (sliceLen : Nat) (fuel : Nat) (rt : RT) : StartRes :=
  -- the time budget of the run starts now (one clock read)
  let m := { rt.m.readClock.2 with runStart := rt.m.readClock.1, exitReq := false }
  sched sliceLen fuel rt.ctxs 0 m .ok

def stateName : RunState → List B
  | .empty => bytes "empty" | .halted => bytes "halted" | .haltedError => bytes "halted_error"

/-- observation of the `start` verb -/
def observeStart (prog : List Instr) (globals : List Name) (maxRuntime : Nat) (maxLoops : Nat := 10000)
    (age : Nat := 0) (parse : List B → Option (List Instr) := fun _ => none) : List B :=
  let m0 : M := { maxRuntime := maxRuntime, maxLoops := maxLoops, now := age, parse := parse }
  let r := start 150 1000000 { ctxs := [{ frames := [{ code := prog }], id := 1 }], m := m0 }
  match r.res with
  | .hang => bytes "timeout"
  | .crash => bytes "cpp-exception:std::out_of_range"
  | res =>
    let m := r.rt.m
    let gs := globals.flatMap (fun g =>
      [32] ++ g ++ bytes "=" ++ (match varsGet (nsGet m.nss 0) g with | some v => renderV m v | none => bytes "undef"))
    bytes "res=" ++ resName res ++ bytes " st=" ++ stateName r.state ++ bytes " err=" ++ errCodes m ++
      bytes " t=" ++ renderNat m.now ++ gs

end Sqf.VM
