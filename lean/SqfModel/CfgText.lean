import SqfModel.Lex
import SqfModel.Config
/-!
# Model of the config text front end (`src/parser/config/tokenizer.hpp`, `parser.y`/`parser.tab.cc`)

`next` mirrors `tokenizer::next()` / `try_match` of the config tokenizer (dispatch on the first character to an
ordered candidate list, the first candidate with a non-zero length wins; a character without a `case`, or a
candidate list that matches nothing, is an `invalid` token).  Line and column are counted as the C++ counts them
(lines from 0; a line comment counts its line itself and the white space behind it counts the newline again; the
two characters that open a block comment are not counted).

`yylex` drops `#line`, comments and white space.  The tokens the grammar sees keep the source text they skipped in
front of the next token (`gap`), because an unquoted value (`ANYSTRING`) is the source text from its first to its
last token.

The grammar is LALR(1) with three shift/reduce conflicts, all resolved by shift (`parser.output`): separators are
taken greedily, and an unquoted field value takes every token up to the next `;`.  `pTop` is the deterministic
parser for that reading; it produces the `Node` list that `Sqf.Cfg.load` applies to the config host.
-/
namespace Sqf.CfgText
open Sqf

/-- `tokenizer::etoken` of the config tokenizer, same order as the C++ enum -/
inductive CK where
  | eof | invalid | any | mLine | commentLine | commentBlock | whitespace
  | tClass | tDelete
  | curlyO | curlyC | edgeO | edgeC | colon | semicolon | comma | plusEqual | equal
  | strD | strS | ident | number | hex
deriving DecidableEq, Repr, Inhabited

def CK.toNat : CK → Nat
  | .eof => 0 | .invalid => 1 | .any => 2 | .mLine => 3 | .commentLine => 4 | .commentBlock => 5 | .whitespace => 6
  | .tClass => 7 | .tDelete => 8
  | .curlyO => 9 | .curlyC => 10 | .edgeO => 11 | .edgeC => 12 | .colon => 13 | .semicolon => 14 | .comma => 15
  | .plusEqual => 16 | .equal => 17
  | .strD => 18 | .strS => 19 | .ident => 20 | .number => 21 | .hex => 22

def kwClass : Name := [99, 108, 97, 115, 115]
def kwDelete : Name := [100, 101, 108, 101, 116, 101]
def kwPlusEq : Name := [43, 61]

/-- tokenizer state: remaining input, `m_line`, `m_column`, offset of `m_current` -/
structure LS where
  rest : List B
  line : Nat
  col : Nat
  off : Nat
deriving Repr

structure RawTok where
  kind : CK
  text : List B
  line : Nat
  col : Nat
  off : Nat
deriving Repr

/-- result of one candidate: length and the position counters behind the token -/
structure M where
  len : Nat
  line : Nat
  col : Nat
deriving Repr

/-- white space run -/
def scanWs : List B → Nat → Nat → Nat → Nat × Nat × Nat
  | [], n, l, k => (n, l, k)
  | c :: cs, n, l, k =>
    if isWs c then
      if c == 10 then scanWs cs (n + 1) (l + 1) 0 else scanWs cs (n + 1) l (k + 1)
    else (n, l, k)

/-- body of a block comment behind `/*`: up to, not including, the first `*/` (the "EOF check" of the C++ tests
    for `//`, which cannot stand there, so the terminator is never part of the token) -/
def scanBlock : List B → Nat → Nat → Nat → Nat × Nat × Nat
  | [], n, l, k => (n, l, k)
  | [c], n, l, k => if c == 10 then (n + 1, l + 1, 0) else (n + 1, l, k + 1)
  | c :: c' :: cs, n, l, k =>
    if c == 42 && c' == 47 then (n, l, k)
    else if c == 10 then scanBlock (c' :: cs) (n + 1) (l + 1) 0
    else scanBlock (c' :: cs) (n + 1) l (k + 1)

/-- body of a string behind the opening quote `q` (`n` counts the consumed characters, the opening quote
    included).  A doubled quote takes two characters and one column; the end of the input ends the token. -/
def scanStr (q : B) : List B → Nat → Nat → Nat → Nat × Nat × Nat
  | [], n, l, k => (n, l, k + 1)
  | [c], n, l, k =>
    if c == q then (n + 1, l, k + 1)
    else if c == 10 then (n + 1, l + 1, 0 + 1)
    else (n + 1, l, k + 1 + 1)
  | c :: c' :: cs, n, l, k =>
    if c == q && c' == q then scanStr q cs (n + 2) l (k + 1)
    else if c == q then (n + 1, l, k + 1)
    else if c == 10 then scanStr q (c' :: cs) (n + 1) (l + 1) 0
    else scanStr q (c' :: cs) (n + 1) l (k + 1)

def isLetterOrUnderscore (c : B) : Bool := isAlpha c || c == 95

/-- exponent part of `t_number` at position `n` of `s` (the text behind the mantissa starts at `s.drop n`) -/
def numExp (r : List B) (n : Nat) : Nat :=
  match r with
  | e :: r1 =>
    if e == 101 || e == 69 then
      match r1 with
      | sg :: r2 =>
        if sg == 43 || sg == 45 then
          (if lenWhile isDigit r2 == 0 then n + 1 else n + 2 + lenWhile isDigit r2)
        else
          (if lenWhile isDigit r1 == 0 then n else n + 1 + lenWhile isDigit r1)
      | [] => n
    else n
  | [] => n

/-- fraction part: behind `n` characters, `r` the text there -/
def numFrac (r : List B) (n : Nat) : Nat :=
  match r with
  | 46 :: r1 => if lenWhile isDigit r1 == 0 then n else n + 1 + lenWhile isDigit r1
  | _ => n

/-- fraction, exponent and the check of the following character, behind the `n1` characters of the integer part -/
def numTail (r0 : List B) (n1 : Nat) : Option Nat :=
  let n2 := numFrac (r0.drop n1) n1
  let n3 := numExp (r0.drop n2) n2
  -- `is_good` holds whenever this point is reached
  match r0.drop n3 with
  | c :: _ => if isLetterOrUnderscore c then none else some n3
  | [] => some n3

/-- `t_number` behind the optional sign: digits (required unless a `.` follows), fraction, exponent; `none` when
    there is no digit where one is required or when a letter or `_` follows; otherwise the number of characters -/
def numBody (r0 : List B) : Option Nat :=
  match r0 with
  | 46 :: _ => numTail r0 0
  | _ => if lenWhile isDigit r0 == 0 then none else numTail r0 (lenWhile isDigit r0)

/-- `t_number` of the config tokenizer: optional sign and `numBody`. 0 = no match (a lone sign in front of a `.`
    without digits is a number token of length 1: the sign) -/
def numLen (s : List B) : Nat :=
  match s with
  | c :: r0 =>
    if c == 43 || c == 45 then (match numBody r0 with | some n => n + 1 | none => 0)
    else (match numBody (c :: r0) with | some n => n | none => 0)
  | [] => 0

/-- one candidate of `try_match` -/
def matchKind (st : LS) : CK → Option M
  | .mLine =>
    match Sqf.matchLine { rest := st.rest, line := st.line, col := st.col, off := st.off, file := [] } with
    | some m => some { len := m.len, line := m.line, col := 0 }
    | none => none
  | .commentLine =>
    let n := Sqf.lineCommentLen st.rest
    if n == 0 then none else some { len := n, line := st.line + 1, col := 0 }
  | .commentBlock =>
    match st.rest with
    | 47 :: 42 :: r =>
      let (n, l, k) := scanBlock r 2 st.line st.col
      some { len := n, line := l, col := k }
    | _ => none
  | .whitespace =>
    let (n, l, k) := scanWs st.rest 0 st.line st.col
    if n == 0 then none else some { len := n, line := l, col := k }
  | .tClass => let n := lenIdentMatch kwClass st.rest 0
    if n == 0 then none else some { len := n, line := st.line, col := st.col + n }
  | .tDelete => let n := lenIdentMatch kwDelete st.rest 0
    if n == 0 then none else some { len := n, line := st.line, col := st.col + n }
  | .plusEqual => let n := lenIdentMatch kwPlusEq st.rest 0
    if n == 0 then none else some { len := n, line := st.line, col := st.col + n }
  | .curlyO | .curlyC | .edgeO | .edgeC | .colon | .semicolon | .comma | .equal | .any =>
    some { len := 1, line := st.line, col := st.col + 1 }
  | .strD =>
    let (n, l, k) := scanStr 34 (st.rest.drop 1) 1 st.line (st.col + 1)
    some { len := n, line := l, col := k }
  | .strS =>
    let (n, l, k) := scanStr 39 (st.rest.drop 1) 1 st.line (st.col + 1)
    some { len := n, line := l, col := k }
  | .ident => let n := lenWhile isIdentChar st.rest
    if n == 0 then none else some { len := n, line := st.line, col := st.col + n }
  | .hex => let n := Sqf.hexLen st.rest
    if n == 0 then none else some { len := n, line := st.line, col := st.col + n }
  | .number => let n := numLen st.rest
    if n == 0 then none else some { len := n, line := st.line, col := st.col + n }
  | .eof | .invalid => none

/-- candidate list of `tokenizer::next()` for a first character (`none`: the `default:` branch) -/
def candidates (c : B) : Option (List CK) :=
  if c == 99 || c == 67 then some [.tClass, .ident]
  else if c == 100 || c == 68 then some [.tDelete, .ident]
  else if isAlpha c || c == 95 then some [.ident]
  else if c == 48 then some [.hex, .number, .ident]
  else if isDigit c then some [.number, .ident]
  else if c == 43 then some [.plusEqual, .number, .any]
  else if c == 45 then some [.number, .any]
  else if c == 47 then some [.commentLine, .commentBlock, .any]
  else if c == 92 || c == 42 || c == 40 || c == 41 || c == 37 || c == 38 || c == 33 || c == 124 || c == 62
      || c == 60 || c == 63 || c == 94 then some [.any]
  else if c == 91 then some [.edgeO] else if c == 93 then some [.edgeC]
  else if c == 123 then some [.curlyO] else if c == 125 then some [.curlyC]
  else if c == 36 then some [.hex]
  else if c == 34 then some [.strD]
  else if c == 61 then some [.equal]
  else if c == 39 then some [.strS]
  else if c == 58 then some [.colon]
  else if c == 59 then some [.semicolon]
  else if c == 44 then some [.comma]
  else if c == 46 then some [.number, .any]
  else if isWs c then some [.whitespace]
  else if c == 35 then some [.mLine]
  else none

def tryMatch (st : LS) : List CK → Option (CK × M)
  | [] => none
  | k :: ks => match matchKind st k with
    | some m => if m.len == 0 then tryMatch st ks else some (k, m)
    | none => tryMatch st ks

/-- `tokenizer::next()`; an `invalid` token does not advance -/
def next (st : LS) : RawTok × LS :=
  match st.rest with
  | [] => ({ kind := .eof, text := [], line := st.line, col := st.col, off := st.off }, st)
  | c :: _ =>
    match candidates c with
    | none => ({ kind := .invalid, text := [], line := st.line, col := st.col, off := st.off }, st)
    | some ks =>
      match tryMatch st ks with
      | none => ({ kind := .invalid, text := [], line := st.line, col := st.col, off := st.off }, st)
      | some (k, m) =>
        ({ kind := k, text := st.rest.take m.len, line := st.line, col := st.col, off := st.off },
         { rest := st.rest.drop m.len, line := m.line, col := m.col, off := st.off + m.len })

def LS.init (s : List B) : LS := { rest := s, line := 0, col := 0, off := 0 }

/-- all raw tokens up to and including the first `eof`/`invalid` -/
def lexAll : Nat → LS → List RawTok
  | 0, _ => []
  | f + 1, st =>
    if (next st).1.kind == .eof || (next st).1.kind == .invalid then [(next st).1]
    else (next st).1 :: lexAll f (next st).2

def lexText (s : List B) : List RawTok := lexAll (s.length + 1) (LS.init s)

/-! ## What the grammar sees -/

def isTrivia (k : CK) : Bool :=
  k == .mLine || k == .commentLine || k == .commentBlock || k == .whitespace

/-- a token of the grammar: kind, text, and the source text skipped between it and the next token -/
structure Tok where
  kind : CK
  text : List B
  gap : List B
deriving Repr, DecidableEq, Inhabited

/-- fold trivia into the gap of the token in front of it (trivia in front of the first token is dropped):
    returns the trivia text at the head of the list and the tokens -/
def attachR : List RawTok → List B × List Tok
  | [] => ([], [])
  | t :: ts =>
    if isTrivia t.kind then (t.text ++ (attachR ts).1, (attachR ts).2)
    else ([], { kind := t.kind, text := t.text, gap := (attachR ts).1 } :: (attachR ts).2)

def attach (l : List RawTok) : List Tok := (attachR l).2

def tokens (s : List B) : List Tok := attach (lexText s)

/-- `nesting_too_deep`: more than 2000 braces open at some token in front of the first `eof`/`invalid` -/
def tooDeep : List Tok → Nat → Bool
  | [], _ => false
  | t :: ts, d =>
    if t.kind == .curlyO then (if d + 1 > 2000 then true else tooDeep ts (d + 1))
    else if t.kind == .curlyC then tooDeep ts (d - 1)
    else tooDeep ts d

/-! ## The grammar -/

/-- `anyp`: the tokens an unquoted array element may consist of -/
def isAnyp (k : CK) : Bool :=
  k == .tClass || k == .tDelete || k == .number || k == .hex || k == .strD || k == .strS || k == .ident
    || k == .edgeO || k == .edgeC || k == .colon || k == .equal || k == .any

/-- `anyval`: the tokens an unquoted field value may consist of -/
def isAnyval (k : CK) : Bool := isAnyp k || k == .curlyO || k == .curlyC || k == .comma

/-- source text from the first to the last token of a run -/
def runText : List Tok → List B
  | [] => []
  | [t] => t.text
  | t :: u :: ts => t.text ++ t.gap ++ runText (u :: ts)

/-- value of a run of `anyp`/`anyval` tokens: a single number, string or identifier is that literal, anything else
    the source text (`ANYSTRING`) -/
def litOfRun : List Tok → Cfg.Lit
  | [t] =>
    if t.kind == .number then .dec t.text
    else if t.kind == .hex then .hex t.text
    else if t.kind == .strD || t.kind == .strS then .str t.text
    else .text t.text
  | ts => .text (runText ts)

mutual
/-- `array` behind its opening brace: elements separated by commas up to the closing brace -/
def pElems : Nat → List Tok → List Cfg.Lit → Option (List Cfg.Lit × List Tok)
  | 0, _, _ => none
  | f + 1, ts, acc =>
    match pElem f ts with
    | none => none
    | some (l, r) =>
      match r with
      | [] => none
      | t :: r' =>
        if t.kind == .comma then pElems f r' (acc ++ [l])
        else if t.kind == .curlyC then some (acc ++ [l], r')
        else none
/-- `arrayvalue` -/
def pElem : Nat → List Tok → Option (Cfg.Lit × List Tok)
  | 0, _ => none
  | _ + 1, [] => none
  | f + 1, t :: ts =>
    if t.kind == .curlyO then
      match ts with
      | [] => none
      | u :: us =>
        if u.kind == .curlyC then some (.arr [], us)
        else match pElems f (u :: us) [] with
          | some (xs, r) => some (.arr xs, r)
          | none => none
    else
      if (t :: ts).takeWhile (fun x => isAnyp x.kind) == [] then none
      else some (litOfRun ((t :: ts).takeWhile (fun x => isAnyp x.kind)), (t :: ts).dropWhile (fun x => isAnyp x.kind))
end

/-- `array` (the token list starts at the opening brace) -/
def pArray (f : Nat) : List Tok → Option (Cfg.Lit × List Tok)
  | [] => none
  | t :: ts => if t.kind == .curlyO then pElem f (t :: ts) else none

def skipSeps : List Tok → List Tok
  | [] => []
  | t :: ts => if t.kind == .semicolon then skipSeps ts else t :: ts

mutual
/-- one statement (`inBody`: fields are allowed) -/
def pStmt : Nat → Bool → List Tok → Option (Cfg.Node × List Tok)
  | 0, _, _ => none
  | _ + 1, _, [] => none
  | f + 1, inBody, t :: ts =>
    if t.kind == .tDelete then
      match ts with
      | n :: r => if n.kind == .ident then some (.del n.text, r) else none
      | [] => none
    else if t.kind == .tClass then
      match ts with
      | [] => none
      | n :: r =>
        if n.kind != .ident then none else
        match r with
        | [] => some (.classDef n.text, [])
        | c :: r1 =>
          if c.kind == .colon then
            match r1 with
            | [] => none
            | b :: r2 =>
              if b.kind != .ident then none else
              match r2 with
              | [] => some (.classDefExt n.text b.text, [])
              | o :: r3 =>
                if o.kind == .curlyO then
                  match pBody f r3 with
                  | some (body, r4) => some (.clsExt n.text b.text body, r4)
                  | none => none
                else some (.classDefExt n.text b.text, o :: r3)
          else if c.kind == .curlyO then
            match pBody f r1 with
            | some (body, r4) => some (.cls n.text body, r4)
            | none => none
          else some (.classDef n.text, c :: r1)
    else if inBody && t.kind == .ident then
      match ts with
      | [] => none
      | e :: r =>
        if e.kind == .equal then
          if r.takeWhile (fun x => isAnyval x.kind) == [] then none
          else some (.field t.text (litOfRun (r.takeWhile (fun x => isAnyval x.kind))),
                     r.dropWhile (fun x => isAnyval x.kind))
        else if e.kind == .edgeO then
          match r with
          | c :: a :: r1 =>
            if c.kind != .edgeC then none
            else if a.kind == .equal then
              match pArray f r1 with
              | some (l, r2) => some (.fieldArr t.text l, r2)
              | none => none
            else if a.kind == .plusEqual then
              match pArray f r1 with
              | some (l, r2) => some (.fieldArrAppend t.text l, r2)
              | none => none
            else none
          | _ => none
        else none
    else none
/-- `classbody` behind its opening brace: `}` or statements separated by `;` runs, then `}` -/
def pBody : Nat → List Tok → Option (List Cfg.Node × List Tok)
  | 0, _ => none
  | _ + 1, [] => none
  | f + 1, t :: ts =>
    if t.kind == .curlyC then some ([], ts)
    else match pStmt f true (t :: ts) with
      | none => none
      | some (n, r) => pMore f r [n]
/-- behind a statement of a class body: `}` ends it, a run of `;` may be followed by another statement -/
def pMore : Nat → List Tok → List Cfg.Node → Option (List Cfg.Node × List Tok)
  | 0, _, _ => none
  | _ + 1, [], _ => none
  | f + 1, t :: ts, acc =>
    if t.kind == .curlyC then some (acc, ts)
    else if t.kind == .semicolon then
      match skipSeps ts with
      | [] => none
      | u :: us =>
        if u.kind == .curlyC then some (acc, us)
        else match pStmt f true (u :: us) with
          | none => none
          | some (n, r) => pMore f r (acc ++ [n])
    else none
end

/-- top level behind a statement: the end of the input, or a run of `;` and possibly another statement -/
def pTopMore : Nat → List Tok → List Cfg.Node → Option (List Cfg.Node)
  | 0, _, _ => none
  | _ + 1, [], _ => none
  | f + 1, t :: ts, acc =>
    if t.kind == .eof then some acc
    else if t.kind == .semicolon then
      match skipSeps ts with
      | [] => none
      | u :: us =>
        if u.kind == .eof then some acc
        else match pStmt f false (u :: us) with
          | none => none
          | some (n, r) => pTopMore f r (acc ++ [n])
    else none

/-- `start` -/
def pTop (f : Nat) (ts : List Tok) : Option (List Cfg.Node) :=
  match skipSeps ts with
  | [] => none
  | u :: us =>
    if u.kind == .eof then some []
    else match pStmt f false (u :: us) with
      | none => none
      | some (n, r) => pTopMore f r [n]

/-- `parser::parse` up to `apply_to_confighost`: the statements of a config text, `none` = rejected -/
def parseText (s : List B) : Option (List Cfg.Node) :=
  let ts := tokens s
  if tooDeep ts 0 then none else pTop (2 * ts.length + 4) ts

end Sqf.CfgText
