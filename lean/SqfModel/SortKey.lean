import SqfModel.Value
import SqfModel.Lemmas.DecOrd
/-!
# The comparison `sort` uses (model of `sort_compare` in `ops_generic.cpp`)

`sort` orders numbers, strings, or arrays of numbers/strings position by position. The comparison is a
three-way one; `std::sort` gets `compare a b < 0` (ascending) or `> 0` (descending).
-/
namespace Sqf.SortKey
open Sqf Sqf.DecOrd

/-- an element `sort` can compare: a number, NaN, a string; anything else compares equal to its like -/
inductive Atom where
  | num (d : Dec)
  | nan
  | str (s : List Nat)
  | other
  deriving Repr

/-- the type the implementation checks to be the same in every key before it sorts -/
inductive Kind where
  | number | string | other
  deriving DecidableEq, Repr

def Atom.kind : Atom → Kind
  | .num _ => .number | .nan => .number | .str _ => .string | .other => .other

/-- strings compare like `std::string::compare`: byte by byte, a prefix is smaller -/
def cmpBytes : List Nat → List Nat → Int
  | [], [] => 0
  | [], _ :: _ => -1
  | _ :: _, [] => 1
  | a :: as, b :: bs => if a < b then -1 else if b < a then 1 else cmpBytes as bs

def cmpDec (a b : Dec) : Int := if Dec.lt a b then -1 else if Dec.lt b a then 1 else 0

/-- NaN sorts in front of every number and equal to itself -/
def cmpAtom : Atom → Atom → Int
  | .num a, .num b => cmpDec a b
  | .nan, .nan => 0
  | .nan, .num _ => -1
  | .num _, .nan => 1
  | .str a, .str b => cmpBytes a b
  | _, _ => 0

/-- position by position, the first difference decides; a missing position compares equal (the keys of one
    `sort` all have the same length) -/
def cmpKeys : List Atom → List Atom → Int
  | a :: as, b :: bs => if cmpAtom a b = 0 then cmpKeys as bs else cmpAtom a b
  | _, _ => 0

/-! ## a three-way comparison that is a total preorder -/

/-- antisymmetry of the sign and transitivity of `≤` — what makes `fun a b => cmp a b < 0` a strict weak order -/
structure Preorder3 {α : Type} (P : α → α → Prop) (cmp : α → α → Int) : Prop where
  refl : ∀ a, cmp a a = 0
  anti : ∀ a b, P a b → (cmp a b < 0 ↔ cmp b a > 0) ∧ (cmp a b = 0 ↔ cmp b a = 0)
  trans : ∀ a b c, P a b → P b c → cmp a b ≤ 0 → cmp b c ≤ 0 → cmp a c ≤ 0

theorem cmpBytes_refl : ∀ a, cmpBytes a a = 0 := by
  intro a; induction a with
  | nil => rfl
  | cons x xs ih => simp [cmpBytes, ih]

theorem cmpBytes_anti : ∀ a b, (cmpBytes a b < 0 ↔ cmpBytes b a > 0) ∧ (cmpBytes a b = 0 ↔ cmpBytes b a = 0) := by
  intro a
  induction a with
  | nil => intro b; cases b <;> simp [cmpBytes]
  | cons x xs ih =>
    intro b
    cases b with
    | nil => simp [cmpBytes]
    | cons y ys =>
      simp only [cmpBytes]
      by_cases h1 : x < y
      · have : ¬ y < x := by omega
        simp [h1, this]
      · by_cases h2 : y < x
        · simp [h1, h2]
        · simp only [h1, h2, if_false]
          exact ih ys

theorem cmpBytes_trans : ∀ a b c, cmpBytes a b ≤ 0 → cmpBytes b c ≤ 0 → cmpBytes a c ≤ 0 := by
  intro a
  induction a with
  | nil => intro b c _ _; cases c <;> simp [cmpBytes]
  | cons x xs ih =>
    intro b c h1 h2
    cases b with
    | nil => simp [cmpBytes] at h1
    | cons y ys =>
      cases c with
      | nil => simp [cmpBytes] at h2
      | cons z zs =>
        simp only [cmpBytes] at h1 h2 ⊢
        by_cases xy : x < y
        · by_cases yz : y < z
          · have : x < z := by omega
            simp [this]
          · by_cases zy : z < y
            · simp [yz, zy] at h2
            · have : x < z := by omega
              simp [this]
        · by_cases yx : y < x
          · simp [xy, yx] at h1
          · have exy : x = y := by omega
            subst exy
            by_cases yz : x < z
            · simp [yz]
            · by_cases zy : z < x
              · simp [yz, zy] at h2
              · simp only [xy, yx, yz, zy, if_false] at h1 h2 ⊢
                exact ih ys zs h1 h2

theorem cmpDec_refl (a : Dec) : cmpDec a a = 0 := by simp [cmpDec, lt_irrefl]

theorem cmpDec_anti (a b : Dec) : (cmpDec a b < 0 ↔ cmpDec b a > 0) ∧ (cmpDec a b = 0 ↔ cmpDec b a = 0) := by
  unfold cmpDec
  cases h1 : Dec.lt a b <;> cases h2 : Dec.lt b a <;> simp
  have := lt_asymm a b h1; rw [h2] at this; cases this

theorem cmpDec_trans (a b c : Dec) (h1 : cmpDec a b ≤ 0) (h2 : cmpDec b c ≤ 0) : cmpDec a c ≤ 0 := by
  unfold cmpDec at *
  -- a ≤ b means ¬ b < a
  have nba : Dec.lt b a = false := by
    cases hab : Dec.lt a b with
    | true => exact lt_asymm a b hab
    | false => cases hba : Dec.lt b a with
      | false => rfl
      | true => simp [hab, hba] at h1
  have ncb : Dec.lt c b = false := by
    cases hbc : Dec.lt b c with
    | true => exact lt_asymm b c hbc
    | false => cases hcb : Dec.lt c b with
      | false => rfl
      | true => simp [hbc, hcb] at h2
  have nca : Dec.lt c a = false := by
    cases hca : Dec.lt c a with
    | false => rfl
    | true =>
      -- c < a; with ¬ b < a … derive a contradiction through b
      cases hab : Dec.lt a b with
      | true => have := lt_trans c a b hca hab; rw [ncb] at this; cases this
      | false =>
        cases hbc : Dec.lt b c with
        | true => have := lt_trans b c a hbc hca; rw [nba] at this; cases this
        | false =>
          have := incomparable_trans a b c hab nba hbc ncb
          rw [hca] at this; cases this.2
  cases hac : Dec.lt a c <;> simp [nca]

theorem atom_refl : ∀ a, cmpAtom a a = 0 := by
  intro a; cases a <;> simp [cmpAtom, cmpDec_refl, cmpBytes_refl]

theorem atom_anti (a b : Atom) (h : a.kind = b.kind) : (cmpAtom a b < 0 ↔ cmpAtom b a > 0) ∧ (cmpAtom a b = 0 ↔ cmpAtom b a = 0) := by
  cases a <;> cases b <;> simp [Atom.kind] at h <;> simp [cmpAtom]
  · exact cmpDec_anti _ _
  · exact cmpBytes_anti _ _

theorem atom_trans (a b c : Atom) (h1 : a.kind = b.kind) (h2 : b.kind = c.kind) (l1 : cmpAtom a b ≤ 0) (l2 : cmpAtom b c ≤ 0) : cmpAtom a c ≤ 0 := by
  cases a <;> cases b <;> simp [Atom.kind] at h1 <;> cases c <;> simp [Atom.kind] at h2 <;> simp [cmpAtom] at l1 l2 ⊢
  · exact cmpDec_trans _ _ _ l1 l2
  · exact cmpBytes_trans _ _ _ l1 l2

/-- **The comparison of single elements is a total preorder** among elements of one kind -/
theorem C09_atom_preorder : Preorder3 (fun a b : Atom => a.kind = b.kind) cmpAtom :=
  ⟨atom_refl, atom_anti, atom_trans⟩

def kinds (k : List Atom) : List Kind := k.map Atom.kind

theorem keys_refl : ∀ a, cmpKeys a a = 0 := by
  intro a; induction a with
  | nil => rfl
  | cons x xs ih => simp [cmpKeys, atom_refl, ih]

theorem keys_anti : ∀ a b, kinds a = kinds b → (cmpKeys a b < 0 ↔ cmpKeys b a > 0) ∧ (cmpKeys a b = 0 ↔ cmpKeys b a = 0) := by
  intro a
  induction a with
  | nil => intro b h; cases b <;> simp [cmpKeys]
  | cons x xs ih =>
    intro b h
    cases b with
    | nil => simp [cmpKeys]
    | cons y ys =>
      simp only [kinds, List.map_cons, List.cons.injEq] at h
      have ha := atom_anti x y h.1
      simp only [cmpKeys]
      by_cases e : cmpAtom x y = 0
      · have e' : cmpAtom y x = 0 := ha.2.mp e
        simp only [e, e', if_true]
        exact ih ys h.2
      · have e' : ¬ cmpAtom y x = 0 := fun h' => e (ha.2.mpr h')
        simp only [e, e', if_false]
        exact ⟨ha.1, by simp⟩

theorem keys_trans : ∀ a b c, kinds a = kinds b → kinds b = kinds c → cmpKeys a b ≤ 0 → cmpKeys b c ≤ 0 → cmpKeys a c ≤ 0 := by
  intro a
  induction a with
  | nil => intro b c _ _ _ _; cases c <;> simp [cmpKeys]
  | cons x xs ih =>
    intro b c h1 h2 l1 l2
    cases b with
    | nil => simp [kinds] at h1
    | cons y ys =>
      cases c with
      | nil => simp [kinds] at h2
      | cons z zs =>
        simp only [kinds, List.map_cons, List.cons.injEq] at h1 h2
        simp only [cmpKeys] at l1 l2 ⊢
        have axy := atom_anti x y h1.1
        have ayz := atom_anti y z h2.1
        have axz := atom_anti x z (h1.1.trans h2.1)
        by_cases exy : cmpAtom x y = 0
        · by_cases eyz : cmpAtom y z = 0
          · -- both equal: x ~ z
            have lxz : cmpAtom x z ≤ 0 := atom_trans x y z h1.1 h2.1 (by omega) (by omega)
            have lzx : cmpAtom z x ≤ 0 := atom_trans z y x h2.1.symm h1.1.symm (by have := ayz.2.mp eyz; omega) (by have := axy.2.mp exy; omega)
            have exz : cmpAtom x z = 0 := by
              have := axz.1
              omega
            simp only [exy, eyz, exz, if_true] at l1 l2 ⊢
            exact ih ys zs h1.2 h2.2 l1 l2
          · simp only [exy, eyz, if_true, if_false] at l1 l2
            have lxz : cmpAtom x z ≤ 0 := atom_trans x y z h1.1 h2.1 (by omega) l2
            by_cases exz : cmpAtom x z = 0
            · -- then z ≤ x ≤ y, so z ≤ y, but y < z
              have lzy : cmpAtom z y ≤ 0 := atom_trans z x y (h1.1.trans h2.1).symm h1.1 (by have := axz.2.mp exz; omega) (by omega)
              have := ayz.1; have := ayz.2
              omega
            · simp only [exz, if_false]; exact lxz
        · simp only [exy, if_false] at l1
          by_cases eyz : cmpAtom y z = 0
          · simp only [eyz, if_true] at l2
            have lxz : cmpAtom x z ≤ 0 := atom_trans x y z h1.1 h2.1 l1 (by omega)
            by_cases exz : cmpAtom x z = 0
            · have lyx : cmpAtom y x ≤ 0 := atom_trans y z x h2.1 (h1.1.trans h2.1).symm (by omega) (by have := axz.2.mp exz; omega)
              have := axy.1; have := axy.2
              omega
            · simp only [exz, if_false]; exact lxz
          · simp only [eyz, if_false] at l2
            have lxz : cmpAtom x z ≤ 0 := atom_trans x y z h1.1 h2.1 l1 l2
            by_cases exz : cmpAtom x z = 0
            · have lzy : cmpAtom z y ≤ 0 := atom_trans z x y (h1.1.trans h2.1).symm h1.1 (by have := axz.2.mp exz; omega) l1
              have := ayz.1; have := ayz.2
              omega
            · simp only [exz, if_false]; exact lxz

/-- **The comparison of keys is a total preorder** among keys of the same shape (the shape `sort` checks) -/
theorem C09_keys_preorder : Preorder3 (fun a b : List Atom => kinds a = kinds b) cmpKeys :=
  ⟨keys_refl, keys_anti, keys_trans⟩

/-- what `std::sort` requires of the predicate it is given -/
structure StrictWeak {α : Type} (P : α → α → Prop) (less : α → α → Prop) : Prop where
  irrefl : ∀ a, ¬ less a a
  trans : ∀ a b c, P a b → P b c → less a b → less b c → less a c
  incomp_trans : ∀ a b c, P a b → P b c → ¬ less a b → ¬ less b a → ¬ less b c → ¬ less c b → ¬ less a c ∧ ¬ less c a

/-- a total preorder comparison gives a strict weak ordering, ascending and descending -/
theorem strictWeak_of_preorder {α : Type} (P : α → α → Prop) (cmp : α → α → Int) (hP : ∀ a b, P a b → P b a) (hT : ∀ a b c, P a b → P b c → P a c)
    (h : Preorder3 P cmp) (asc : Bool) :
    StrictWeak P (fun a b => if asc then cmp a b < 0 else cmp a b > 0) := by
  have le_of : ∀ a b, P a b → (cmp a b ≤ 0 ↔ cmp b a ≥ 0) := by
    intro a b hab
    have := h.anti a b hab
    omega
  refine ⟨?_, ?_, ?_⟩
  · intro a; have := h.refl a; cases asc <;> simp [this]
  · intro a b c hab hbc l1 l2
    cases asc
    · simp only [Bool.false_eq_true, if_false] at l1 l2 ⊢
      -- descending: c ≤ b ≤ a strictly
      have h1 := (h.anti a b hab); have h2 := (h.anti b c hbc); have h3 := h.anti a c (hT a b c hab hbc)
      have t := h.trans c b a (hP b c hbc) (hP a b hab) (by omega) (by omega)
      have t2 : ¬ cmp a c = 0 := by
        intro e
        have := h.trans a c b (hT a b c hab hbc) (hP b c hbc) (by omega) (by omega)
        omega
      omega
    · simp only [if_true] at l1 l2 ⊢
      have h1 := (h.anti a b hab); have h2 := (h.anti b c hbc); have h3 := h.anti a c (hT a b c hab hbc)
      have t := h.trans a b c hab hbc (by omega) (by omega)
      have t2 : ¬ cmp a c = 0 := by
        intro e
        have := h.trans c a b (hP a c (hT a b c hab hbc)) hab (by omega) (by omega)
        omega
      omega
  · intro a b c hab hbc n1 n2 n3 n4
    have h1 := (h.anti a b hab); have h2 := (h.anti b c hbc); have h3 := h.anti a c (hT a b c hab hbc)
    have eab : cmp a b = 0 := by cases asc <;> simp at n1 n2 <;> omega
    have ebc : cmp b c = 0 := by cases asc <;> simp at n3 n4 <;> omega
    have t1 := h.trans a b c hab hbc (by omega) (by omega)
    have t2 := h.trans c b a (hP b c hbc) (hP a b hab) (by omega) (by omega)
    have eac : cmp a c = 0 := by omega
    cases asc <;> simp <;> omega

/-- **`sort` hands `std::sort` a strict weak ordering** — ascending and descending, for numbers (NaN
included), strings and arrays of them, as long as the keys have the same shape (which `sort` checks) -/
theorem C09_sort_predicate_strict_weak (asc : Bool) :
    StrictWeak (fun a b : List Atom => kinds a = kinds b) (fun a b => if asc then cmpKeys a b < 0 else cmpKeys a b > 0) :=
  strictWeak_of_preorder _ cmpKeys (fun _ _ h => h.symm) (fun _ _ _ h1 h2 => h1.trans h2) C09_keys_preorder asc

end Sqf.SortKey
