import SqfModel.Basic
/-!
# Model of the SQF tokenizer (`src/parser/sqf/tokenizer.hpp`)

`next` mirrors `tokenizer::next()` / `try_match`: dispatch on the first character to an ordered list
of candidate token kinds, the first candidate with a non-zero length wins.  Line/column accounting is
modelled exactly as the C++ does it ( a line comment leaves its newline, and the counting of the line, to the white space
behind it; lines are counted from 1).  Every read is bounds-checked by construction (pattern
matching on the remaining list) — the C++ routes every read through `is_match(iter)`, which tests
`iter < m_end`.
-/
namespace Sqf

/-- `tokenizer::etoken`, same order as the C++ enum (`toNat` is the enum value). -/
inductive TK where
  | eof | invalid | mLine | commentLine | commentBlock | whitespace
  | tTrue | tFalse | tPrivate
  | curlyO | curlyC | roundO | roundC | edgeO | edgeC | semicolon | comma | equal
  | operator | stringDouble | stringSingle | ident | number | hexadecimal
deriving DecidableEq, Repr

def TK.toNat : TK → Nat
  | .eof => 0 | .invalid => 1 | .mLine => 2 | .commentLine => 3 | .commentBlock => 4 | .whitespace => 5
  | .tTrue => 6 | .tFalse => 7 | .tPrivate => 8
  | .curlyO => 9 | .curlyC => 10 | .roundO => 11 | .roundC => 12 | .edgeO => 13 | .edgeC => 14
  | .semicolon => 15 | .comma => 16 | .equal => 17
  | .operator => 18 | .stringDouble => 19 | .stringSingle => 20 | .ident => 21 | .number => 22
  | .hexadecimal => 23

/-- Tokenizer state: remaining input, `m_line`, `m_column`, offset of `m_current`, current file. -/
structure LState where
  rest : List B
  line : Nat
  col : Nat
  off : Nat
  file : Name
deriving Repr

/-- A token as handed to `yylex`: kind, contents, and the position *before* the token. -/
structure Token where
  kind : TK
  text : List B
  line : Nat
  col : Nat
  off : Nat
  file : Name
deriving Repr

/-- `len_ident_match(start, against)`: case-insensitive keyword match that must not be followed by
    a letter.  The whole keyword has to be present (an input that ends inside the keyword is no match). -/
def lenIdentMatch : List B → List B → Nat → Nat
  | [], [], n => n
  | [], c :: _, n => if isLowerAlpha (toLower c) then 0 else n
  | _ :: _, [], _ => 0
  | k :: ks, c :: cs, n => if toLower c = k then lenIdentMatch ks cs (n + 1) else 0

/-- `len_match<chars...>`: number of leading characters satisfying `p`. -/
def lenWhile (p : B → Bool) : List B → Nat
  | [] => 0
  | c :: cs => if p c then lenWhile p cs + 1 else 0

/-- The `t_operator` table of `try_match`. -/
def opLen : List B → Nat
  | 61 :: 61 :: _ => 2            -- ==
  | 60 :: 61 :: _ => 2            -- <=
  | 60 :: _ => 1                  -- <
  | 62 :: 61 :: _ => 2            -- >=
  | 62 :: 62 :: _ => 2            -- >>
  | 62 :: _ => 1                  -- >
  | 43 :: _ => 1                  -- +
  | 45 :: _ => 1                  -- -
  | 47 :: _ => 1                  -- /
  | 42 :: _ => 1                  -- *
  | 37 :: _ => 1                  -- %
  | 94 :: _ => 1                  -- ^
  | 33 :: 61 :: _ => 2            -- !=
  | 33 :: _ => 1                  -- !
  | 58 :: _ => 1                  -- :
  | 35 :: _ => 1                  -- #
  | 124 :: 124 :: _ => 2          -- ||
  | 38 :: 38 :: _ => 2            -- &&
  | _ => 0

/-- white space run: returns (length, line, column) -/
def scanWs : List B → Nat → Nat → Nat → Nat × Nat × Nat
  | [], n, l, k => (n, l, k)
  | c :: cs, n, l, k =>
    if isWs c then
      if c == 10 then scanWs cs (n + 1) (l + 1) 0 else scanWs cs (n + 1) l (k + 1)
    else (n, l, k)

/-- Body of a string literal after the opening quote (`n` counts consumed characters including the
    opening quote).  `pend` = the previous character was a quote whose role (first half of a doubled
    quote, or terminator) is decided by the next character. -/
def scanStr (q : B) : Bool → List B → Nat → Nat → Nat → Nat × Nat × Nat
  | false, [], n, l, k => (n, l, k + 1)
  | true, [], n, l, k => (n + 1, l, k + 1)
  | false, c :: cs, n, l, k =>
    if c == q then scanStr q true cs n l k
    else if c == 10 then scanStr q false cs (n + 1) (l + 1) 0
    else scanStr q false cs (n + 1) l (k + 1)
  | true, c :: cs, n, l, k =>
    if c == q then scanStr q false cs (n + 2) l (k + 2)
    else (n + 1, l, k + 1)

def startsDot : List B → Bool
  | 46 :: _ => true
  | _ => false

/-- fraction of a number: `r1` is the text behind the `n1` characters of the integer part -/
def numFracAt (r1 : List B) (n1 : Nat) : Nat :=
  match r1 with
  | 46 :: r => if lenWhile isDigit r == 0 then n1 else n1 + 1 + lenWhile isDigit r
  | _ => n1

/-- exponent of a number: `r2` is the text behind the `n2` characters of integer part and fraction -/
def numExpAt (r2 : List B) (n2 : Nat) : Nat :=
  match r2 with
  | e :: r =>
    if e == 101 || e == 69 then
      match r with
      | sg :: r' =>
        if sg == 43 || sg == 45 then
          (if lenWhile isDigit r' == 0 then n2 + 1 else n2 + 2 + lenWhile isDigit r')
        else
          (if lenWhile isDigit r == 0 then n2 else n2 + 1 + lenWhile isDigit r)
      | [] => n2
    else n2
  | [] => n2

/-- `t_number`: length of the number token at the start of the input (0 = no match). -/
def numLen (s : List B) : Nat :=
  -- integer part (skipped when the text starts with '.')
  if !startsDot s && lenWhile isDigit s == 0 then 0 else
  numExpAt (s.drop (numFracAt (s.drop (if startsDot s then 0 else lenWhile isDigit s)) (if startsDot s then 0 else lenWhile isDigit s)))
    (numFracAt (s.drop (if startsDot s then 0 else lenWhile isDigit s)) (if startsDot s then 0 else lenWhile isDigit s))

/-- `t_hexadecimal` -/
def hexLen : List B → Nat
  | 36 :: r => let d := lenWhile isHexDigit r; if d == 0 then 0 else 1 + d          -- $hex
  | _ :: 120 :: r => let d := lenWhile isHexDigit r; if d == 0 then 0 else 2 + d    -- 0xhex (lower-case x only)
  | _ => 0

/-- line comment: characters up to (not including) the newline or the end of input -/
def lineCommentLen : List B → Nat
  | 47 :: 47 :: r => 2 + lenWhile (fun c => c != 10) r
  | _ => 0

/-- block comment body after `/*`: scans through the first `*/` or to the end of input;
    returns (length, line, column) -/
def scanBlock : List B → Nat → Nat → Nat → Nat × Nat × Nat
  | [], n, l, k => (n, l, k)
  | [c], n, l, k => if c == 10 then (n + 1, l + 1, 0) else (n + 1, l, k + 1)
  | c :: c' :: cs, n, l, k =>
    if c == 42 && c' == 47 then
      -- the terminator is part of the comment
      (n + 2, l, k + 2)
    else if c == 10 then scanBlock (c' :: cs) (n + 1) (l + 1) 0
    else scanBlock (c' :: cs) (n + 1) l (k + 1)

def allDigits (s : List B) : Bool := s.all isDigit

/-- The result of one successful `try_match` candidate. -/
structure Match where
  len : Nat
  line : Nat
  col : Nat
  file : Name

/-- `#line <n> "<file>"` (kind `m_line`). -/
def matchLine (st : LState) : Option Match :=
  if lenIdentMatch (kwLine) st.rest 0 == 0 then none else
  let r0 := st.rest.drop 5
  let (sep, r1) := match r0 with | _ :: r => (1, r) | [] => (0, [])
  let numStr := r1.takeWhile (fun c => c != 10 && c != 32)
  if numStr.isEmpty || !allDigits numStr || decide (18 < numStr.length) then none else
  let r2 := r1.drop numStr.length
  let sp := lenWhile (fun c => c == 32 || c == 9) r2
  let r3 := r2.drop sp
  let flen := lenWhile (fun c => c != 10) r3
  let atEnd := (r3.drop flen).isEmpty
  let file := if !atEnd && decide (2 ≤ flen) then (r3.take (flen - 1)).drop 1 else st.file
  some { len := 5 + sep + numStr.length + sp + flen, line := natOfDigits numStr, col := 0, file := file }

/-- One candidate of `try_match`. -/
def matchKind (st : LState) : TK → Option Match
  | .mLine => matchLine st
  | .commentLine =>
    let n := lineCommentLen st.rest
    if n == 0 then none else some { len := n, line := st.line, col := st.col, file := st.file }
  | .commentBlock =>
    match st.rest with
    | 47 :: 42 :: r =>
      let (n, l, k) := scanBlock r 2 st.line (st.col + 2)
      some { len := n, line := l, col := k, file := st.file }
    | _ => none
  | .whitespace =>
    let (n, l, k) := scanWs st.rest 0 st.line st.col
    if n == 0 then none else some { len := n, line := l, col := k, file := st.file }
  | .tFalse => let n := lenIdentMatch (kwFalse) st.rest 0
    if n == 0 then none else some { len := n, line := st.line, col := st.col + n, file := st.file }
  | .tTrue => let n := lenIdentMatch (kwTrue) st.rest 0
    if n == 0 then none else some { len := n, line := st.line, col := st.col + n, file := st.file }
  | .tPrivate => let n := lenIdentMatch (kwPrivate) st.rest 0
    if n == 0 then none else some { len := n, line := st.line, col := st.col + n, file := st.file }
  | .curlyO | .curlyC | .roundO | .roundC | .edgeO | .edgeC | .semicolon | .comma | .equal =>
    some { len := 1, line := st.line, col := st.col + 1, file := st.file }
  | .operator => let n := opLen st.rest
    if n == 0 then none else some { len := n, line := st.line, col := st.col + n, file := st.file }
  | .stringDouble =>
    let (n, l, k) := scanStr 34 false (st.rest.drop 1) 1 st.line (st.col + 1)
    some { len := n, line := l, col := k, file := st.file }
  | .stringSingle =>
    let (n, l, k) := scanStr 39 false (st.rest.drop 1) 1 st.line (st.col + 1)
    some { len := n, line := l, col := k, file := st.file }
  | .ident => let n := lenWhile isIdentChar st.rest
    if n == 0 then none else some { len := n, line := st.line, col := st.col + n, file := st.file }
  | .hexadecimal => let n := hexLen st.rest
    if n == 0 then none else some { len := n, line := st.line, col := st.col + n, file := st.file }
  | .number => let n := numLen st.rest
    if n == 0 then none else some { len := n, line := st.line, col := st.col + n, file := st.file }
  | .eof | .invalid => none

/-- Candidate list of `tokenizer::next()` for a first character (`none`: the `default:` branch). -/
def candidates (c : B) : Option (List TK) :=
  if c == 102 || c == 70 then some [.tFalse, .ident]
  else if c == 112 || c == 80 then some [.tPrivate, .ident]
  else if c == 116 || c == 84 then some [.tTrue, .ident]
  else if isAlpha c || c == 95 then some [.ident]
  else if c == 48 then some [.hexadecimal, .number]
  else if isDigit c then some [.number]
  else if c == 43 || c == 45 then some [.number, .operator]
  else if c == 47 then some [.commentLine, .commentBlock, .operator]
  else if c == 42 || c == 37 || c == 38 || c == 33 || c == 124 || c == 62 || c == 60 || c == 58 || c == 94 then
    some [.operator]
  else if c == 40 then some [.roundO] else if c == 41 then some [.roundC]
  else if c == 91 then some [.edgeO] else if c == 93 then some [.edgeC]
  else if c == 123 then some [.curlyO] else if c == 125 then some [.curlyC]
  else if c == 36 then some [.hexadecimal]
  else if c == 34 then some [.stringDouble]
  else if c == 61 then some [.operator, .equal]
  else if c == 39 then some [.stringSingle]
  else if c == 63 then some []
  else if c == 59 then some [.semicolon] else if c == 44 then some [.comma]
  else if c == 46 then some [.number]
  else if isWs c then some [.whitespace]
  else if c == 35 then some [.mLine, .operator]
  else none

/-- `try_match`: first candidate that matches. -/
def tryMatch (st : LState) : List TK → Option (TK × Match)
  | [] => none
  | k :: ks => match matchKind st k with
    | some m => if m.len == 0 then tryMatch st ks else some (k, m)
    | none => tryMatch st ks

/-- `tokenizer::next()`. An `invalid` token does not advance. -/
def next (st : LState) : Token × LState :=
  match st.rest with
  | [] => ({ kind := .eof, text := [], line := st.line, col := st.col, off := st.off, file := st.file }, st)
  | c :: _ =>
    match candidates c with
    | none => ({ kind := .invalid, text := [], line := st.line, col := st.col, off := st.off, file := st.file }, st)
    | some ks =>
      match tryMatch st ks with
      | none => ({ kind := .invalid, text := [], line := st.line, col := st.col, off := st.off, file := st.file }, st)
      | some (k, m) =>
        ({ kind := k, text := st.rest.take m.len, line := st.line, col := st.col, off := st.off, file := st.file },
         { rest := st.rest.drop m.len, line := m.line, col := m.col, off := st.off + m.len, file := m.file })

def LState.init (s : List B) (file : Name) : LState :=
  { rest := s, line := 1, col := 0, off := 0, file := file }

/-- All tokens up to and including the first `eof`/`invalid` (fuel = an upper bound on the number
    of tokens; `length + 1` always suffices because every other token consumes at least one byte). -/
def lexAll : Nat → LState → List Token
  | 0, _ => []
  | f + 1, st =>
    let (t, st') := next st
    if t.kind == .eof || t.kind == .invalid then [t] else t :: lexAll f st'

def lexText (s : List B) : List Token := lexAll (s.length + 1) (LState.init s [102])

end Sqf
