import SqfModel.Lex
/-!
# Model of `yylex` (token classification against the operator registry) and of the SQF grammar
(`src/parser/sqf/parser.y`, compiled artefact `parser.tab.cc`)

The grammar has one nonterminal per binary precedence level (`exp0 … exp9`, here levels 1 … 10) and
`expu` for everything that binds tighter.  The Bison parser is LALR(1) with every shift/reduce conflict
resolved by *shift*; the model makes that resolution explicit:

* in operand position a token that can be a unary operator (`U`, `UN`, `BU_k`, `private`) is a prefix
  operator; a `BUN_k` token is a prefix operator iff the next token can start an operand
  (`FIRST(expu)`), otherwise it is a nular operand; `N`/`BN_k` tokens are operands;
* in operator position a `B/BU/BN/BUN` token of level `k` is the binary operator of level `k`.

`pExpSeed k a ts` continues an expression whose first operand `a` has already been parsed through the
left-recursive loops of levels `10, 9, …, k` (this is how the LALR automaton climbs back after reducing
`value` to `expu` to `exp9` …).
-/
namespace Sqf

/-- What the registry knows about a (lower-cased) name. -/
structure OpInfo where
  nular : Bool
  unary : Bool
  /-- precedence of the first registered binary overload -/
  binary : Option Nat
deriving DecidableEq, Repr

/-- The operator registry as `yylex` sees it. -/
abbrev Registry := Name → OpInfo

/-- Binary-capable operator classes of the grammar. -/
inductive OpClass where
  | b | bu | bn | bun
deriving DecidableEq, Repr

/-- Parser tokens (`%token` of parser.y). Operator names are kept as written. -/
inductive PTok where
  | eof | invalid
  | tTrue | tFalse | tPrivate
  | curlyO | curlyC | roundO | roundC | squareO | squareC | semicolon | comma | equal
  | op (cls : OpClass) (lvl : Nat) (name : Name)      -- OPERATOR_{B,BU,BN,BUN}_{lvl-1}
  | opU (name : Name) | opN (name : Name) | opUN (name : Name)
  | ident (name : Name) | number (text : Name) | hexnumber (text : Name) | string (text : Name)
deriving DecidableEq, Repr

/-- `yylex`'s classification of a `t_operator` / `t_ident` token. -/
def classify (reg : Registry) (isIdent : Bool) (text : Name) : PTok :=
  let info := reg (lower text)
  let fallback := if isIdent then PTok.ident text else PTok.invalid
  match info.binary with
  | some p =>
    if decide (1 ≤ p) && decide (p ≤ 10) then
      match info.unary, info.nular with
      | false, false => .op .b p text
      | false, true => .op .bn p text
      | true, false => .op .bu p text
      | true, true => .op .bun p text
    else fallback
  | none =>
    match info.unary, info.nular with
    | false, true => .opN text
    | true, false => .opU text
    | true, true => .opUN text
    | false, false => fallback

/-- `yylex`: `none` for the tokens it skips (white space, comments, `#line`). -/
def toPTok (reg : Registry) (t : Token) : Option PTok :=
  match t.kind with
  | .eof => some .eof
  | .invalid => some .invalid
  | .mLine | .commentLine | .commentBlock | .whitespace => none
  | .tFalse => some .tFalse
  | .tPrivate => some .tPrivate
  | .tTrue => some .tTrue
  | .curlyO => some .curlyO | .curlyC => some .curlyC
  | .roundO => some .roundO | .roundC => some .roundC
  | .edgeO => some .squareO | .edgeC => some .squareC
  | .semicolon => some .semicolon | .comma => some .comma
  | .operator => some (classify reg false t.text)
  | .ident => some (classify reg true t.text)
  | .stringDouble | .stringSingle => some (.string t.text)
  | .number => some (.number t.text)
  | .hexadecimal => some (.hexnumber t.text)
  | .equal => some .equal

/-- The token stream the parser consumes (ends with `eof` or `invalid`). -/
def ptoks (reg : Registry) (s : List B) : List PTok := (lexText s).filterMap (toPTok reg)

/-! ## Syntax trees -/

/-- Leaf tokens that reduce to `value`. -/
inductive Leaf where
  | str (text : Name) | num (text : Name) | hex (text : Name) | tru | fls
  | ident (n : Name) | nular (n : Name)
deriving DecidableEq, Repr

/-- `astnode` restricted to what `to_assembly` distinguishes. Statements are `Ast`s too. -/
inductive Ast where
  | leaf (l : Leaf)
  | unary (n : Name) (a : Ast)
  | binary (lvl : Nat) (n : Name) (l r : Ast)
  | array (es : List Ast)
  | code (ss : List Ast)
  | assign (lhs : Ast) (e : Ast)
  | assignLocal (n : Name) (e : Ast)
deriving Repr

def top : Nat := 11

/-- Can this token start an operand (`FIRST(expu)`)? -/
def startsOperand : PTok → Bool
  | .tPrivate | .opU _ | .opUN _ | .opN _ => true
  | .op .b _ _ => false
  | .op _ _ _ => true
  | .roundO | .curlyO | .squareO => true
  | .string _ | .ident _ | .number _ | .hexnumber _ | .tTrue | .tFalse => true
  | _ => false

def isSep : PTok → Bool
  | .semicolon | .comma => true
  | _ => false

def skipSeps : List PTok → List PTok
  | [] => []
  | t :: ts => if isSep t then skipSeps ts else t :: ts

/-- binary operator token of level `k`? -/
def binOpAt (k : Nat) : PTok → Option Name
  | .op _ l nm => if l = k then some nm else none
  | _ => none

mutual
/-- An operand (`expu`). The Boolean tells whether it was reduced through `value` (only then may an
    `=` follow at statement start). -/
def pPrimary : Nat → List PTok → Option (Ast × List PTok × Bool)
  | 0, _ => none
  | f + 1, ts =>
    match ts with
    | .string t :: r => some (.leaf (.str t), r, true)
    | .number t :: r => some (.leaf (.num t), r, true)
    | .hexnumber t :: r => some (.leaf (.hex t), r, true)
    | .tTrue :: r => some (.leaf .tru, r, true)
    | .tFalse :: r => some (.leaf .fls, r, true)
    | .ident n :: r => some (.leaf (.ident n), r, true)
    | .opN n :: r => some (.leaf (.nular n), r, true)
    | .op .bn _ n :: r => some (.leaf (.nular n), r, true)
    | .op .bun _ n :: r =>
      match r with
      | t :: _ =>
        if startsOperand t then
          match pPrimary f r with
          | some (a, r', _) => some (.unary n a, r', false)
          | none => none
        else some (.leaf (.nular n), r, true)
      | [] => some (.leaf (.nular n), r, true)
    | .op .bu _ n :: r =>
      match pPrimary f r with
      | some (a, r', _) => some (.unary n a, r', false)
      | none => none
    | .opU n :: r =>
      match pPrimary f r with
      | some (a, r', _) => some (.unary n a, r', false)
      | none => none
    | .opUN n :: r =>
      match pPrimary f r with
      | some (a, r', _) => some (.unary n a, r', false)
      | none => none
    | .tPrivate :: r =>
      match pPrimary f r with
      | some (a, r', _) => some (.unary (kwPrivate) a, r', false)
      | none => none
    | .roundO :: r =>
      match pExp f 1 r with
      | some (a, .roundC :: r') => some (a, r', false)
      | _ => none
    | .curlyO :: r =>
      match pStatements f (skipSeps r) with
      | some (ss, .curlyC :: r') => some (.code ss, r', true)
      | _ => none
    | .squareO :: .squareC :: r => some (.array [], r, true)
    | .squareO :: r =>
      match pExp f 1 r with
      | some (e, r') =>
        match pArrayTail f r' with
        | some (es, r'') => some (.array (e :: es), r'', true)
        | none => none
      | none => none
    | _ => none

/-- `exp_{k-1}` of the grammar: an operand followed by the loops of levels 10 … k. -/
def pExp : Nat → Nat → List PTok → Option (Ast × List PTok)
  | 0, _, _ => none
  | f + 1, k, ts =>
    match pPrimary f ts with
    | some (a, r, _) => pExpSeed f k a r
    | none => none

/-- Continue after the first operand: apply the left-recursive loops of levels 10 … k. -/
def pExpSeed : Nat → Nat → Ast → List PTok → Option (Ast × List PTok)
  | 0, _, _, _ => none
  | f + 1, k, a, ts =>
    if top ≤ k then some (a, ts)
    else match pExpSeed f (k + 1) a ts with
      | some (a', r) => pLoop f k a' r
      | none => none

/-- The left-recursive alternatives of level `k`: `acc op_k operand op_k operand …`. -/
def pLoop : Nat → Nat → Ast → List PTok → Option (Ast × List PTok)
  | 0, _, _, _ => none
  | f + 1, k, acc, ts =>
    match ts with
    | t :: r =>
      match binOpAt k t with
      | some nm =>
        match pExp f (k + 1) r with
        | some (b, r') => pLoop f k (.binary k nm acc b) r'
        | none => none
      | none => some (acc, ts)
    | [] => some (acc, ts)

/-- `"," expression` repeated, then `"]"`. -/
def pArrayTail : Nat → List PTok → Option (List Ast × List PTok)
  | 0, _ => none
  | f + 1, ts =>
    match ts with
    | .squareC :: r => some ([], r)
    | .comma :: r =>
      match pExp f 1 r with
      | some (e, r') =>
        match pArrayTail f r' with
        | some (es, r'') => some (e :: es, r'')
        | none => none
      | none => none
    | _ => none

/-- One statement: `private IDENT = expression`, `value = expression`, or an expression. -/
def pStatement : Nat → List PTok → Option (Ast × List PTok)
  | 0, _ => none
  | f + 1, ts =>
    match ts with
    | .tPrivate :: .ident n :: .equal :: r =>
      match pExp f 1 r with
      | some (e, r') => some (.assignLocal n e, r')
      | none => none
    | _ =>
      match pPrimary f ts with
      | some (a, .equal :: r, true) =>
        match pExp f 1 r with
        | some (e, r') => some (.assign a e, r')
        | none => none
      | some (a, r, _) => pExpSeed f 1 a r
      | none => none

/-- Statements separated by one or more `;`/`,` (leading separators already skipped; trailing ones
    allowed).  Stops in front of the first token that cannot start a statement. -/
def pStatements : Nat → List PTok → Option (List Ast × List PTok)
  | 0, _ => none
  | f + 1, ts =>
    match ts with
    | [] => some ([], [])
    | t :: _ =>
      if startsOperand t then
        match pStatement f ts with
        | some (s, r) =>
          match r with
          | t' :: _ =>
            if isSep t' then
              match pStatements f (skipSeps r) with
              | some (ss, r') => some (s :: ss, r')
              | none => none
            else some ([s], r)
          | [] => some ([s], r)
        | none => none
      else some ([], ts)
end

/-- `start`: the whole token stream must be consumed up to `eof`. -/
def parseToks (ts : List PTok) : Option (List Ast) :=
  match pStatements (16 * ts.length + 64) (skipSeps ts) with
  | some (ss, [.eof]) => some ss
  | _ => none

/-- The implementation additionally refuses syntax trees higher than 2000 levels (deeply nested brackets,
    chains of thousands of operators) so that code generation cannot exhaust the stack; the model has no such
    limit. Inputs of the correspondence checks stay far below it. -/
def parse (reg : Registry) (s : List B) : Option (List Ast) := parseToks (ptoks reg s)

end Sqf
