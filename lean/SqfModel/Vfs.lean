import SqfModel.Basic
/-!
# Model of the virtual file system (`src/fileio/default.cpp`)

The virtual tree is represented by the list of mappings in the order they were added: a tree node
exists for a segment path exactly when that path is a prefix of the virtual path of some mapping (or is
the root), and the physical directories of a node are those of the mappings whose virtual path is exactly
that path, in the order of `add_mapping`. The file system is a parameter `files : List (List B)` (the
physical paths that exist); `file_exists` is membership.
-/
namespace Sqf.Vfs
open Sqf

abbrev Seg := List B

structure Mapping where
  virt : List Seg          -- the non-empty segments of the virtual path
  phys : List B            -- the physical directory, as `lexically_normal` prints it
  deriving Repr, DecidableEq

def slash : B := 47
def backslash : B := 92

/-- `std::getline` on '/' until the stream is exhausted: a trailing empty piece is not produced -/
def splitSlash (s : List B) : List Seg :=
  let rec go : List B → Seg → List Seg → List Seg
    | [], cur, acc => if cur.isEmpty then acc.reverse else (cur.reverse :: acc).reverse
    | c :: cs, cur, acc => if c = slash then go cs [] (cur.reverse :: acc) else go cs (c :: cur) acc
  go s [] []

def dotdot : Seg := [46, 46]

def isPrefix (p q : List Seg) : Bool := p.length ≤ q.length && q.take p.length == p

/-- does the tree hold a node for the segment path `p`? -/
def nodeExists (ms : List Mapping) (p : List Seg) : Bool := p.isEmpty || ms.any (fun m => isPrefix p m.virt)

/-- the physical directories of node `p`, in the order they were mapped -/
def nodePhys (ms : List Mapping) (p : List Seg) : List (List B) := (ms.filter (fun m => m.virt == p)).map (·.phys)

def toSlashes (s : List B) : List B := s.map (fun c => if c = backslash then slash else c)

def isSpace (c : B) : Bool := c == 32 || c == 9

/-- `util::trim` (blanks and tabs) -/
def trim (s : List B) : List B := ((s.dropWhile isSpace).reverse.dropWhile isSpace).reverse

/-- state of the walk: the node stack as a segment path, or `none` when even the root was popped -/
abbrev Stack := Option (List Seg)

/-- the walk over the request's segments; returns the stack reached and the segments not consumed -/
def walk (ms : List Mapping) : Stack → List Seg → Stack × List Seg
  | st, [] => (st, [])
  | st, s :: rest =>
    if s.isEmpty then walk ms st rest
    else match st with
      | none => (none, s :: rest)                  -- no nodes left: break (`..` does not pop an empty stack)
      | some p =>
        if s = dotdot then walk ms (if p.isEmpty then none else some p.dropLast) rest
        else if nodeExists ms (p ++ [s]) then walk ms (some (p ++ [s])) rest
        else (some p, s :: rest)                   -- dead end: break, this segment belongs to the remainder

/-- the remainder appended to the physical directory: every unconsumed segment except `..` -/
def remainder (segs : List Seg) : List B := (segs.filter (fun s => s != dotdot)).flatMap (fun s => slash :: s)

/-- navigation along the current file's virtual path (all segments must be nodes) -/
def navigate (ms : List Mapping) : List Seg → List Seg → Option (List Seg)
  | p, [] => some p
  | p, s :: rest => if s.isEmpty then navigate ms p rest
                    else if nodeExists ms (p ++ [s]) then navigate ms (p ++ [s]) rest else none

/-- `file_exists(path)`: the operating system resolves `.` and repeated separators; a path that ends in
    a separator names no regular file -/
def cleanPath (p : List B) : List B :=
  let abs := p.head? == some slash
  let segs := (splitSlash p).filter (fun s => !s.isEmpty && s != [46])
  (if abs then [] else []) ++ (if abs then segs.flatMap (fun s => slash :: s) else
    match segs with
    | [] => []
    | s :: rest => s ++ rest.flatMap (fun x => slash :: x))

def existsFile (files : List (List B)) (p : List B) : Bool :=
  p.getLast? != some slash && files.contains (cleanPath p)

structure Info where
  physical : List B
  virtual_ : List B
  deriving Repr, DecidableEq

/-- `get_info_virtual(view, current)` -/
def resolveVirtual (ms : List Mapping) (files : List (List B)) (req curVirt : List B) : Option Info :=
  let virt := trim (toSlashes req)
  if virt.isEmpty then none
  else
    let relative := virt.head? != some slash
    let start : Option (List Seg) :=
      if relative && !curVirt.isEmpty then navigate ms [] (splitSlash curVirt) else some []
    let virtFull := if relative && !curVirt.isEmpty then curVirt ++ [slash] ++ virt else virt
    match start with
    | none => none
    | some p0 =>
      match walk ms (some p0) (splitSlash virt) with
      | (none, _) => none
      | (some p, rest) =>
        match (nodePhys ms p).find? (fun ph => existsFile files (ph ++ remainder rest)) with
        | some ph => some { physical := ph ++ remainder rest, virtual_ := virtFull }
        | none => none

/-! ## `std::filesystem::path::lexically_normal` (POSIX) -/

/-- a path in normal form: rooted or not, its file names, and whether a directory separator ends it -/
structure NPath where
  abs : Bool
  segs : List Seg
  trailing : Bool
  deriving Repr, DecidableEq

def dot : Seg := [46]

/-- the `..` rule: a name followed by `..` disappears together with it (a separator in front of them stays,
    so the result ends in a separator when the pair was last); under the root directory a `..` disappears -/
def foldDots (abs : Bool) : List Seg → List Seg → Bool → List Seg × Bool
  | [], acc, tr => (acc.reverse, tr)
  | s :: rest, acc, tr =>
    if s = dot then foldDots abs rest acc (if rest.isEmpty then true else tr)
    else if s = dotdot then
      match acc with
      | top :: acc' =>
        if top = dotdot then foldDots abs rest (s :: acc) (if rest.isEmpty then false else tr)
        else foldDots abs rest acc' (if rest.isEmpty then true else tr)
      | [] => if abs then foldDots abs rest [] (if rest.isEmpty then true else tr) else foldDots abs rest [s] (if rest.isEmpty then false else tr)
    else foldDots abs rest (s :: acc) tr

/-- `path(text).lexically_normal()` -/
def normalize (text : List B) : NPath :=
  let abs := text.head? == some slash
  let pieces := (splitSlash text).filter (fun s => !s.isEmpty)
  let endsSlash := text.getLast? == some slash && !pieces.isEmpty
  let r := foldDots abs pieces [] endsSlash
  { abs := abs, segs := r.1, trailing := if r.1.isEmpty then false else r.2 }

/-- the text of a normal path (`.` for the empty relative path) -/
def NPath.render (p : NPath) : List B :=
  if p.segs.isEmpty then (if p.abs then [slash] else dot)
  else (if p.abs then [slash] else []) ++ (p.segs.head!.append ((p.segs.drop 1).flatMap (fun s => slash :: s))) ++ (if p.trailing then [slash] else [])

/-- the components `path::begin() … end()` iterates over -/
def NPath.comps (p : NPath) : List Seg :=
  (if p.abs then [[slash]] else []) ++ p.segs ++ (if p.trailing then [[]] else [])

def isRelative (p : NPath) : Bool := !p.abs

/-- the tree nodes in creation order (root first): every prefix of every mapped virtual path, first
    appearance wins -/
def nodesInOrder (ms : List Mapping) : List (List Seg) :=
  let all := ms.flatMap (fun m => (List.range m.virt.length).map (fun k => m.virt.take (k + 1)))
  [] :: all.foldl (fun acc p => if acc.contains p then acc else acc ++ [p]) []

def virtualFull (p : List Seg) : List B := if p.isEmpty then [slash] else p.flatMap (fun s => slash :: s)

/-- `get_info_physical(view, current)`. The request is normalised and, if relative, taken against the
    current file's directory; the first mapped physical directory (nodes in creation order, roots in
    mapping order) that is a proper component-wise prefix of it translates it back into a virtual path,
    which is resolved virtually. After an unsuccessful translation the loop goes on with the *translated*
    path, as the implementation does. -/
def resolvePhysical (ms : List Mapping) (files : List (List B)) (req curVirt curPhys : List B) : Option Info :=
  let n0 := normalize req
  let toFind0 : NPath :=
    if isRelative n0 then
      let base := if files.contains curPhys then
          -- parent_path() of the current file
          let cp := curPhys.reverse.dropWhile (fun c => c != slash)
          (cp.drop 1).reverse
        else curPhys
      -- operator/ : a relative right side is appended behind a separator (none is added to an empty left side)
      normalize (if base.isEmpty then n0.render else if base.getLast? == some slash then base ++ n0.render else base ++ [slash] ++ n0.render)
    else n0
  let cands : List (List Seg × List B) := (nodesInOrder ms).flatMap (fun p => (nodePhys ms p).map (fun ph => (p, ph)))
  let rec go : List (List Seg × List B) → NPath → Option Info
    | [], _ => none
    | (p, ph) :: rest, toFind =>
      let pc := (normalize ph).comps
      let tc := toFind.comps
      -- the physical directory written by add_mapping is already normal; its trailing separator is kept
      let phys : NPath := normalize ph
      let pcomps := phys.comps
      if pcomps.length < tc.length && tc.take pcomps.length == pcomps then
        let text := toFind.render
        let tail := text.drop (phys.render.length + 1)
        let v := (normalize (virtualFull p ++ [slash] ++ tail)).render
        match resolveVirtual ms files (toSlashes v) curVirt with
        | some i => some i
        | none => go rest (normalize (virtualFull p ++ [slash] ++ tail))
      else go rest toFind
  go cands toFind0

/-- `get_info(view, current)`: the virtual interpretation first, then the physical one -/
def resolve (ms : List Mapping) (files : List (List B)) (req curVirt curPhys : List B) : Option Info :=
  match resolveVirtual ms files req curVirt with
  | some i => some i
  | none => resolvePhysical ms files req curVirt curPhys

end Sqf.Vfs
