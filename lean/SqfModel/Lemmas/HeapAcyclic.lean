import SqfModel.VM.Ops
/-!
# Acyclicity of the container heap

`Ends h mp v`: the containment tree below the value `v` (array cells of the heap `h`, key/value lists
of the hash maps `mp`) is well founded — following elements, keys and values always ends. A heap is
acyclic when this holds for every value.

The central facts:

* `reachesC_false_ends` — when the cycle test answers "no" (for whatever fuel), the tested values are
  well founded even in the heap that results from rewriting the target cell: the test is *sound*;
* `ends_after_setArr` / `ends_after_setMap` — rewriting one cell with elements that are old elements of
  that cell or passed the test keeps every value well founded;
* `ends_after_alloc` — allocation keeps every (bounded) value well founded.
-/
set_option linter.unusedSimpArgs false
set_option linter.unusedVariables false
namespace Sqf.VM
open Sqf

abbrev Heap := List (List Val)
abbrev Maps := List (List (Val × Val))

/-- the containment tree below `v` is well founded -/
inductive Ends (h : Heap) (mp : Maps) : Val → Prop
  | atom (v : Val) : (∀ j, v ≠ .ref j) → (∀ j, v ≠ .mapref j) → Ends h mp v
  | arr (j : Nat) : (∀ x, x ∈ h.getD j [] → Ends h mp x) → Ends h mp (.ref j)
  | map (j : Nat) : (∀ e, e ∈ mp.getD j [] → Ends h mp e.1) → (∀ e, e ∈ mp.getD j [] → Ends h mp e.2) →
      Ends h mp (.mapref j)

/-- no container can be reached from itself -/
def Acyclic (h : Heap) (mp : Maps) : Prop := ∀ v, Ends h mp v

theorem ends_nil (h : Heap) (mp : Maps) : Ends h mp .nil := Ends.atom _ (fun j => by simp) (fun j => by simp)

theorem getD_set_ne (h : Heap) (id j : Nat) (c : List Val) (hne : j ≠ id) : (h.set id c).getD j [] = h.getD j [] := by
  simp [List.getD_eq_getElem?_getD, List.getElem?_set, Ne.symm hne]

theorem getD_set_eq (h : Heap) (id : Nat) (c : List Val) (hlt : id < h.length) : (h.set id c).getD id [] = c := by
  simp [List.getD_eq_getElem?_getD, List.getElem?_set, hlt]

theorem set_ge (h : Heap) (id : Nat) (c : List Val) (hge : h.length ≤ id) : h.set id c = h := by
  apply List.ext_getElem?
  intro i
  rw [List.getElem?_set]
  split
  · next heq => subst heq; simp [List.getElem?_eq_none hge]; exact hge
  · rfl

theorem mgetD_set_ne (mp : Maps) (id j : Nat) (c : List (Val × Val)) (hne : j ≠ id) : (mp.set id c).getD j [] = mp.getD j [] := by
  simp [List.getD_eq_getElem?_getD, List.getElem?_set, Ne.symm hne]

theorem mgetD_set_eq (mp : Maps) (id : Nat) (c : List (Val × Val)) (hlt : id < mp.length) : (mp.set id c).getD id [] = c := by
  simp [List.getD_eq_getElem?_getD, List.getElem?_set, hlt]

theorem mset_ge (mp : Maps) (id : Nat) (c : List (Val × Val)) (hge : mp.length ≤ id) : mp.set id c = mp := by
  apply List.ext_getElem?
  intro i
  rw [List.getElem?_set]
  split
  · next heq => subst heq; simp [List.getElem?_eq_none hge]; exact hge
  · rfl

/-! ## The cycle test is sound -/

/-- **array target.** If the walk from the values `xs` does not meet array `id` — for any fuel: running out
of fuel answers "meets" — then every one of them is well founded in any heap that differs from `h` only
in cell `id`. -/
theorem reachesC_false_ends (h h' : Heap) (mp : Maps) (id : Nat)
    (hsame : ∀ j, j ≠ id → h'.getD j [] = h.getD j []) :
    ∀ (f : Nat) (xs : List Val), reachesC h mp f false id xs = false → ∀ x, x ∈ xs → Ends h' mp x := by
  intro f
  induction f with
  | zero => intro xs hr; simp [reachesC] at hr
  | succ f ih =>
    intro xs hr x hx
    rw [reachesC] at hr
    have hx' := (List.any_eq_false.mp hr) x hx
    cases x with
    | ref j =>
      simp only [Bool.not_false, Bool.true_and, Bool.or_eq_true, beq_iff_eq, not_or, Bool.not_eq_true] at hx'
      refine Ends.arr j ?_
      rw [hsame j hx'.1]
      exact ih _ hx'.2
    | mapref j =>
      simp only [Bool.false_and, Bool.false_or, Bool.not_eq_true] at hx'
      refine Ends.map j ?_ ?_
      · intro e he
        have hk : e.1 ∈ (mp.getD j []).flatMap (fun e => [e.1, e.2]) := by
          simp only [List.mem_flatMap]; exact ⟨e, he, by simp⟩
        exact ih _ hx' _ hk
      · intro e he
        have hv : e.2 ∈ (mp.getD j []).flatMap (fun e => [e.1, e.2]) := by
          simp only [List.mem_flatMap]; exact ⟨e, he, by simp⟩
        exact ih _ hx' _ hv
    | _ => exact Ends.atom _ (fun j => by simp) (fun j => by simp)

/-- **map target**, the same for a hash map cell -/
theorem reachesC_true_target_ends (h : Heap) (mp mp' : Maps) (id : Nat)
    (hsame : ∀ j, j ≠ id → mp'.getD j [] = mp.getD j []) :
    ∀ (f : Nat) (xs : List Val), reachesC h mp f true id xs = false → ∀ x, x ∈ xs → Ends h mp' x := by
  intro f
  induction f with
  | zero => intro xs hr; simp [reachesC] at hr
  | succ f ih =>
    intro xs hr x hx
    rw [reachesC] at hr
    have hx' := (List.any_eq_false.mp hr) x hx
    cases x with
    | ref j =>
      simp only [Bool.not_true, Bool.false_and, Bool.false_or, Bool.not_eq_true] at hx'
      exact Ends.arr j (ih _ hx')
    | mapref j =>
      simp only [Bool.true_and, Bool.or_eq_true, beq_iff_eq, not_or, Bool.not_eq_true] at hx'
      refine Ends.map j ?_ ?_
      · rw [hsame j hx'.1]
        intro e he
        have hk : e.1 ∈ (mp.getD j []).flatMap (fun e => [e.1, e.2]) := by
          simp only [List.mem_flatMap]; exact ⟨e, he, by simp⟩
        exact ih _ hx'.2 _ hk
      · rw [hsame j hx'.1]
        intro e he
        have hv : e.2 ∈ (mp.getD j []).flatMap (fun e => [e.1, e.2]) := by
          simp only [List.mem_flatMap]; exact ⟨e, he, by simp⟩
        exact ih _ hx'.2 _ hv
    | _ => exact Ends.atom _ (fun j => by simp) (fun j => by simp)

/-! ## Rewriting one cell -/

/-- rewriting array cell `id` with elements that were elements of that cell before, or are well founded
in the new heap, keeps every well-founded value well founded -/
theorem ends_after_setArr (h : Heap) (mp : Maps) (id : Nat) (cell : List Val)
    (hcell : ∀ x, x ∈ cell → x ∈ h.getD id [] ∨ Ends (h.set id cell) mp x) :
    ∀ v, Ends h mp v → Ends (h.set id cell) mp v := by
  intro v hv
  induction hv with
  | atom v h1 h2 => exact Ends.atom v h1 h2
  | arr j _ ih =>
    refine Ends.arr j ?_
    by_cases hj : j = id
    · subst hj
      by_cases hlt : j < h.length
      · rw [getD_set_eq h j cell hlt]
        intro x hx
        rcases hcell x hx with hold | hnew
        · exact ih x hold
        · exact hnew
      · rw [set_ge h j cell (by omega)]
        intro x hx
        rw [set_ge h j cell (by omega)] at ih
        exact ih x hx
    · rw [getD_set_ne h id j cell hj]
      exact ih
  | map j _ _ ih1 ih2 => exact Ends.map j ih1 ih2

/-- the same for a hash map cell -/
theorem ends_after_setMap (h : Heap) (mp : Maps) (id : Nat) (cell : List (Val × Val))
    (hcell : ∀ e, e ∈ cell → (e.1 ∈ (mp.getD id []).flatMap (fun e => [e.1, e.2]) ∨ Ends h (mp.set id cell) e.1) ∧
      (e.2 ∈ (mp.getD id []).flatMap (fun e => [e.1, e.2]) ∨ Ends h (mp.set id cell) e.2)) :
    ∀ v, Ends h mp v → Ends h (mp.set id cell) v := by
  intro v hv
  induction hv with
  | atom v h1 h2 => exact Ends.atom v h1 h2
  | arr j _ ih => exact Ends.arr j ih
  | map j _ _ ih1 ih2 =>
    by_cases hj : j = id
    · subst hj
      by_cases hlt : j < mp.length
      · have old : ∀ x, x ∈ (mp.getD j []).flatMap (fun e => [e.1, e.2]) → Ends h (mp.set j cell) x := by
          intro x hold
          simp only [List.mem_flatMap] at hold
          obtain ⟨e0, he0, hm⟩ := hold
          simp only [List.mem_cons, List.mem_nil_iff, or_false] at hm
          rcases hm with hm | hm
          · rw [hm]; exact ih1 e0 he0
          · rw [hm]; exact ih2 e0 he0
        refine Ends.map j ?_ ?_
        · rw [mgetD_set_eq mp j cell hlt]
          intro e he
          rcases (hcell e he).1 with hold | hnew
          · exact old _ hold
          · exact hnew
        · rw [mgetD_set_eq mp j cell hlt]
          intro e he
          rcases (hcell e he).2 with hold | hnew
          · exact old _ hold
          · exact hnew
      · rw [mset_ge mp j cell (by omega)] at ih1 ih2 ⊢
        exact Ends.map j ih1 ih2
    · refine Ends.map j ?_ ?_
      · rw [mgetD_set_ne mp id j cell hj]; exact ih1
      · rw [mgetD_set_ne mp id j cell hj]; exact ih2

/-! ## Allocation -/

/-- every reference stored in the heap or the maps points to an existing cell -/
def ValOk (h : Heap) (mp : Maps) (v : Val) : Prop :=
  (∀ j, v = .ref j → j < h.length) ∧ (∀ j, v = .mapref j → j < mp.length)

def Bounded (h : Heap) (mp : Maps) : Prop :=
  (∀ j x, x ∈ h.getD j [] → ValOk h mp x) ∧ (∀ j e, e ∈ mp.getD j [] → ValOk h mp e.1 ∧ ValOk h mp e.2)

theorem getD_append_lt (h : Heap) (c : List Val) (j : Nat) (hlt : j < h.length) : (h ++ [c]).getD j [] = h.getD j [] := by
  simp [List.getD_eq_getElem?_getD, List.getElem?_append_left hlt]

theorem getD_append_eq (h : Heap) (c : List Val) : (h ++ [c]).getD h.length [] = c := by
  simp [List.getD_eq_getElem?_getD]

/-- a bounded, well-founded value stays well founded when a cell is appended: nothing old refers to the
new index -/
theorem ends_after_alloc (h : Heap) (mp : Maps) (cell : List Val) (hb : Bounded h mp) :
    ∀ v, Ends h mp v → ValOk h mp v → Ends (h ++ [cell]) mp v := by
  intro v hv
  induction hv with
  | atom v h1 h2 => intro _; exact Ends.atom v h1 h2
  | arr j _ ih =>
    intro hok
    have hj : j < h.length := hok.1 j rfl
    refine Ends.arr j ?_
    rw [getD_append_lt h cell j hj]
    intro x hx
    exact ih x hx (hb.1 j x hx)
  | map j _ _ ih1 ih2 =>
    intro hok
    exact Ends.map j (fun e he => ih1 e he (hb.2 j e he).1) (fun e he => ih2 e he (hb.2 j e he).2)

/-- the freshly allocated array is well founded when its elements are -/
theorem ends_new_cell (h : Heap) (mp : Maps) (cell : List Val) (hb : Bounded h mp)
    (hcell : ∀ x, x ∈ cell → Ends h mp x ∧ ValOk h mp x) : Ends (h ++ [cell]) mp (.ref h.length) := by
  refine Ends.arr _ ?_
  rw [getD_append_eq]
  intro x hx
  exact ends_after_alloc h mp cell hb x (hcell x hx).1 (hcell x hx).2

end Sqf.VM
