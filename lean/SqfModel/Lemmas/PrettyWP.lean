import SqfModel.Pretty
/-!
# The parentheses the pretty printer re-emits are enough

`prettyD tk a` is well parenthesised (`D.WP`) and erases to `a`, for every tree `a` whose operators have tokens
(`Good tk a`): the hypotheses of the C01 main theorem, so the parser reads the printed tokens back as `a`.
-/
namespace Sqf.Pretty
open Sqf D

def isExprA : Ast → Bool
  | .leaf _ | .unary _ _ | .binary _ _ _ _ | .array _ | .code _ => true
  | _ => false

def isLeafA : Ast → Bool
  | .leaf _ => true
  | _ => false

mutual
/-- every operator of the tree has a token of the right class, every operand position holds an expression -/
def Good (tk : Name → PTok) : Ast → Prop
  | .leaf l => leafOfTok (leafTok tk l) = some l
  | .unary n a => unOfTok (unTok tk n) = some n ∧ isExprA a = true ∧ Good tk a
  | .binary l n x y => binOfTok (tk n) = some (l, n) ∧ 1 ≤ l ∧ l < top ∧ isExprA x = true ∧ isExprA y = true ∧ Good tk x ∧ Good tk y
  | .array es => GoodElems tk es
  | .code ss => GoodStmts tk ss
  | .assign lhs e => isLeafA lhs = true ∧ Good tk lhs ∧ isExprA e = true ∧ Good tk e
  | .assignLocal _ e => isExprA e = true ∧ Good tk e
def GoodElems (tk : Name → PTok) : List Ast → Prop
  | [] => True
  | a :: as => isExprA a = true ∧ Good tk a ∧ GoodElems tk as
def GoodStmts (tk : Name → PTok) : List Ast → Prop
  | [] => True
  | a :: as => Good tk a ∧ GoodStmts tk as
end

theorem wrap_erase (b : Bool) (d : D) : (wrap b d).erase = d.erase := by
  unfold wrap; split <;> simp [erase]

theorem wrap_isExpr (b : Bool) (d : D) (h : d.isExpr = true) : (wrap b d).isExpr = true := by
  unfold wrap; split
  · simp [isExpr]
  · exact h

theorem wrap_true_lvl (d : D) : (wrap true d).lvl = top := by simp [wrap, lvl]

theorem wrap_WP (b : Bool) (d : D) (he : d.isExpr = true) (h : d.WP) : (wrap b d).WP := by
  unfold wrap; split
  · simp only [WP]; exact ⟨he, Or.inr h⟩
  · exact h

theorem prettyD_isExpr (tk : Name → PTok) (a : Ast) (h : isExprA a = true) : (prettyD tk a).isExpr = true := by
  cases a <;> simp [isExprA] at h <;> simp [prettyD, isExpr]

theorem prettyD_isStmt (tk : Name → PTok) (a : Ast) : (prettyD tk a).isStmt = true := by
  cases a <;> simp [prettyD, isStmt, isExpr]

theorem prettyD_lvl (tk : Name → PTok) (a : Ast) : (prettyD tk a).lvl = astLvl a := by
  cases a <;> simp [prettyD, lvl, astLvl]

theorem prettyD_isValue (tk : Name → PTok) (a : Ast) (h : isLeafA a = true) : (prettyD tk a).isValue = true := by
  cases a <;> simp [isLeafA] at h <;> simp [prettyD, isValue]

mutual
theorem erase_prettyD (tk : Name → PTok) : ∀ a : Ast, (prettyD tk a).erase = a
  | .leaf l => by simp [prettyD, erase]
  | .unary n a => by simp [prettyD, erase, wrap_erase, erase_prettyD tk a]
  | .binary l n x y => by simp [prettyD, erase, wrap_erase, erase_prettyD tk x, erase_prettyD tk y]
  | .array es => by simp [prettyD, erase, eraseList_prettyDList tk es]
  | .code ss => by simp [prettyD, erase, eraseList_prettyDSeq tk ss]
  | .assign lhs e => by simp [prettyD, erase, erase_prettyD tk lhs, erase_prettyD tk e]
  | .assignLocal n e => by simp [prettyD, erase, erase_prettyD tk e]
theorem eraseList_prettyDList (tk : Name → PTok) : ∀ es : List Ast, eraseList (prettyDList tk es) = es
  | [] => by simp [prettyDList, eraseList]
  | a :: as => by simp [prettyDList, eraseList, erase_prettyD tk a, eraseList_prettyDList tk as]
theorem eraseList_prettyDSeq (tk : Name → PTok) : ∀ ss : List Ast, eraseList (prettyDSeq tk ss) = ss
  | [] => by simp [prettyDSeq, eraseList]
  | a :: as => by simp [prettyDSeq, eraseList, erase, erase_prettyD tk a, eraseList_prettyDSeq tk as]
end

/-- the operand of a unary operator is printed at the top level -/
theorem unary_operand_lvl (tk : Name → PTok) (n : Name) (a : Ast) :
    (wrap (unaryParen n a) (prettyD tk a)).lvl = top := by
  by_cases hb : isBinary a = true
  · have : unaryParen n a = true := by simp [unaryParen, hb]
    rw [this]; exact wrap_true_lvl _
  · have hl : (prettyD tk a).lvl = top := by
      rw [prettyD_lvl]; cases a <;> simp [isBinary] at hb <;> simp [astLvl]
    unfold wrap; split
    · simp [lvl]
    · exact hl

theorem left_operand_lvl (tk : Name → PTok) (l : Nat) (hl : l < top) (x : Ast) :
    l ≤ (wrap (parenLeft l x) (prettyD tk x)).lvl := by
  unfold wrap; split
  · simp [lvl]; omega
  · next h =>
    rw [prettyD_lvl]
    cases x with
    | binary lx _ _ _ =>
      have h' : ¬ lx < l := by
        intro hc; apply h; simp [parenLeft, isBinary, astLvl, hc]
      simp only [astLvl]; omega
    | _ => simp [astLvl]; omega

theorem right_operand_lvl (tk : Name → PTok) (l : Nat) (hl : l < top) (y : Ast) :
    l + 1 ≤ (wrap (parenRight l y) (prettyD tk y)).lvl := by
  unfold wrap; split
  · simp [lvl]; omega
  · next h =>
    rw [prettyD_lvl]
    cases y with
    | binary ly _ _ _ =>
      have h' : ¬ ly ≤ l := by
        intro hc; apply h; simp [parenRight, isBinary, astLvl, hc]
      simp only [astLvl]; omega
    | _ => simp [astLvl]; omega

mutual
theorem WP_prettyD (tk : Name → PTok) : ∀ a : Ast, Good tk a → (prettyD tk a).WP
  | .leaf l, h => by simpa [prettyD, WP, Good] using h
  | .unary n a, h => by
    simp only [Good] at h
    simp only [prettyD, WP]
    exact ⟨h.1, wrap_isExpr _ _ (prettyD_isExpr tk a h.2.1), unary_operand_lvl tk n a,
      wrap_WP _ _ (prettyD_isExpr tk a h.2.1) (WP_prettyD tk a h.2.2)⟩
  | .binary l n x y, h => by
    simp only [Good] at h
    obtain ⟨h1, h2, h3, h4, h5, h6, h7⟩ := h
    simp only [prettyD, WP]
    exact ⟨h1, h2, h3, wrap_isExpr _ _ (prettyD_isExpr tk x h4), wrap_isExpr _ _ (prettyD_isExpr tk y h5),
      left_operand_lvl tk l h3 x, right_operand_lvl tk l h3 y,
      wrap_WP _ _ (prettyD_isExpr tk x h4) (WP_prettyD tk x h6), wrap_WP _ _ (prettyD_isExpr tk y h5) (WP_prettyD tk y h7)⟩
  | .array es, h => by
    simp only [Good] at h
    simp only [prettyD, WP]
    exact WPArr_prettyDList tk es h
  | .code ss, h => by
    simp only [Good] at h
    simp only [prettyD, WP]
    exact ⟨by simp, WPSeq_prettyDSeq tk ss h⟩
  | .assign lhs e, h => by
    simp only [Good] at h
    simp only [prettyD, WP]
    exact ⟨prettyD_isValue tk lhs h.1, WP_prettyD tk lhs h.2.1, prettyD_isExpr tk e h.2.2.1, WP_prettyD tk e h.2.2.2⟩
  | .assignLocal n e, h => by
    simp only [Good] at h
    simp only [prettyD, WP]
    exact ⟨prettyD_isExpr tk e h.1, WP_prettyD tk e h.2⟩
theorem WPArr_prettyDList (tk : Name → PTok) : ∀ es : List Ast, GoodElems tk es → WPArr (prettyDList tk es)
  | [], _ => by simp [prettyDList, WPArr]
  | a :: as, h => by
    simp only [GoodElems] at h
    simp only [prettyDList, WPArr]
    exact ⟨prettyD_isExpr tk a h.1, WP_prettyD tk a h.2.1, WPArr_prettyDList tk as h.2.2⟩
theorem WPSeq_prettyDSeq (tk : Name → PTok) : ∀ ss : List Ast, GoodStmts tk ss → WPSeq (prettyDSeq tk ss)
  | [], _ => by simp [prettyDSeq, WPSeq]
  | a :: as, h => by
    simp only [GoodStmts] at h
    simp only [prettyDSeq, WPSeq]
    refine ⟨by simp [isSeq], ?_, fun _ => by simp [hasSeps], WPSeq_prettyDSeq tk as h.2⟩
    simp only [WP]
    exact ⟨prettyD_isStmt tk a, WP_prettyD tk a h.1, by simp [isSep]⟩
end

theorem prettyProgram_WP (tk : Name → PTok) (ss : List Ast) (h : GoodStmts tk ss) : (prettyProgram tk ss).WP :=
  ⟨by simp [prettyProgram], WPSeq_prettyDSeq tk ss h⟩

theorem prettyProgram_erase (tk : Name → PTok) (ss : List Ast) : (prettyProgram tk ss).erase = ss :=
  eraseList_prettyDSeq tk ss

end Sqf.Pretty

/-! ## The printer writes the same bytes for a tree and for its normal form -/
namespace Sqf.Pretty
open Sqf

theorem lower_eq_bang (n : Name) : (lower n == [33]) = (n == [33]) := by
  match n with
  | [] => rfl
  | [c] =>
    simp only [lower, List.map]
    by_cases hc : c = 33
    · subst hc; decide
    · have h1 : ([c] == [33]) = false := by simp [hc]
      rw [h1]
      have : toLower c ≠ 33 := by
        unfold toLower; split
        · next hu => simp [isUpperAlpha] at hu; omega
        · exact hc
      simp [this]
  | _ :: _ :: _ => simp [lower]

theorem hexSpelling_idem (t : Name) : hexSpelling (hexSpelling t) = hexSpelling t := by
  cases t with
  | nil => rfl
  | cons c r =>
    by_cases hc : c = 36
    · subst hc; simp [hexSpelling]
    · have h : hexSpelling (c :: r) = c :: r := by
        unfold hexSpelling
        split
        · next h => simp at h; exact absurd h.1 hc
        · rfl
      rw [h, h]

theorem isBinary_norm (a : Ast) : isBinary (norm a) = isBinary a := by
  cases a with
  | leaf l => cases l <;> simp [norm, isBinary]
  | _ => simp [norm, isBinary]

theorem astLvl_norm (a : Ast) : astLvl (norm a) = astLvl a := by
  cases a with
  | leaf l => cases l <;> simp [norm, astLvl]
  | _ => simp [norm, astLvl]

theorem tokText_norm (a : Ast) : tokText (norm a) = lower (tokText a) := by
  cases a with
  | leaf l => cases l <;> simp [norm, tokText, lower]
  | _ => simp [norm, tokText, lower]

theorem unaryParen_norm (n : Name) (a : Ast) : unaryParen (lower n) (norm a) = unaryParen n a := by
  unfold unaryParen
  rw [isBinary_norm, lower_idem, tokText_norm]
  have : (lower (tokText a) != [33]) = (tokText a != [33]) := by
    simp only [bne, lower_eq_bang]
  rw [this]

theorem parenLeft_norm (l : Nat) (a : Ast) : parenLeft l (norm a) = parenLeft l a := by
  simp [parenLeft, isBinary_norm, astLvl_norm]
theorem parenRight_norm (l : Nat) (a : Ast) : parenRight l (norm a) = parenRight l a := by
  simp [parenRight, isBinary_norm, astLvl_norm]

mutual
theorem prettyText_norm : ∀ (a : Ast) (d : Nat), prettyText d (norm a) = prettyText d a
  | .leaf l, d => by cases l <;> simp [norm, prettyText, leafText, hexSpelling_idem]
  | .unary n a, d => by simp [norm, prettyText, lower_idem, unaryParen_norm, prettyText_norm a d]
  | .binary l n x y, d => by
    simp [norm, prettyText, lower_idem, parenLeft_norm, parenRight_norm, prettyText_norm x d, prettyText_norm y d]
  | .array es, d => by simp [norm, prettyText, prettyElems_norm es d]
  | .code ss, d => by
    have he : (normList ss).isEmpty = ss.isEmpty := by cases ss <;> simp [normList]
    simp [norm, prettyText, he, prettyStmts_norm ss (d + 1)]
  | .assign lhs e, d => by
    have he := prettyText_norm e d
    cases lhs with
    | leaf l => cases l <;> simp [norm, prettyText, he]
    | _ => simp [norm, prettyText, he]
  | .assignLocal n e, d => by simp [norm, prettyText, prettyText_norm e d]
theorem prettyElems_norm : ∀ (es : List Ast) (d : Nat), prettyElems d (normList es) = prettyElems d es
  | [], d => by simp [normList, prettyElems]
  | [a], d => by simp [normList, prettyElems, prettyText_norm a d]
  | a :: b :: r, d => by
    have := prettyElems_norm (b :: r) d
    simp only [normList] at this ⊢
    simp only [prettyElems, prettyText_norm a d, this]
theorem prettyStmts_norm : ∀ (ss : List Ast) (d : Nat), prettyStmts d (normList ss) = prettyStmts d ss
  | [], d => by simp [normList, prettyStmts]
  | a :: r, d => by simp [normList, prettyStmts, prettyText_norm a d, prettyStmts_norm r d]
end

/-- the text written for a program is the text written for its normal form -/
theorem prettyFile_norm (ss : List Ast) : prettyFile (normList ss) = prettyFile ss := prettyStmts_norm ss 0

end Sqf.Pretty

/-! ## An executable test of the hypothesis `Good` (run by the driver on every generated program) -/
namespace Sqf.Pretty
open Sqf D

mutual
def goodB (tk : Name → PTok) : Ast → Bool
  | .leaf l => decide (leafOfTok (leafTok tk l) = some l)
  | .unary n a => decide (unOfTok (unTok tk n) = some n) && isExprA a && goodB tk a
  | .binary l n x y => decide (binOfTok (tk n) = some (l, n)) && decide (1 ≤ l) && decide (l < top) && isExprA x && isExprA y && goodB tk x && goodB tk y
  | .array es => goodElemsB tk es
  | .code ss => goodStmtsB tk ss
  | .assign lhs e => isLeafA lhs && goodB tk lhs && isExprA e && goodB tk e
  | .assignLocal _ e => isExprA e && goodB tk e
def goodElemsB (tk : Name → PTok) : List Ast → Bool
  | [] => true
  | a :: as => isExprA a && goodB tk a && goodElemsB tk as
def goodStmtsB (tk : Name → PTok) : List Ast → Bool
  | [] => true
  | a :: as => goodB tk a && goodStmtsB tk as
end

mutual
theorem goodB_sound (tk : Name → PTok) : ∀ a : Ast, goodB tk a = true → Good tk a
  | .leaf l, h => by simpa [goodB, Good] using h
  | .unary n a, h => by
    simp only [goodB, Bool.and_eq_true, decide_eq_true_eq] at h
    simp only [Good]
    exact ⟨h.1.1, h.1.2, goodB_sound tk a h.2⟩
  | .binary l n x y, h => by
    simp only [goodB, Bool.and_eq_true, decide_eq_true_eq] at h
    simp only [Good]
    obtain ⟨⟨⟨⟨⟨⟨h1, h2⟩, h3⟩, h4⟩, h5⟩, h6⟩, h7⟩ := h
    exact ⟨h1, h2, h3, h4, h5, goodB_sound tk x h6, goodB_sound tk y h7⟩
  | .array es, h => by
    simp only [goodB] at h
    simp only [Good]
    exact goodElemsB_sound tk es h
  | .code ss, h => by
    simp only [goodB] at h
    simp only [Good]
    exact goodStmtsB_sound tk ss h
  | .assign lhs e, h => by
    simp only [goodB, Bool.and_eq_true] at h
    simp only [Good]
    exact ⟨h.1.1.1, goodB_sound tk lhs h.1.1.2, h.1.2, goodB_sound tk e h.2⟩
  | .assignLocal n e, h => by
    simp only [goodB, Bool.and_eq_true] at h
    simp only [Good]
    exact ⟨h.1, goodB_sound tk e h.2⟩
theorem goodElemsB_sound (tk : Name → PTok) : ∀ es : List Ast, goodElemsB tk es = true → GoodElems tk es
  | [], _ => by simp [GoodElems]
  | a :: as, h => by
    simp only [goodElemsB, Bool.and_eq_true] at h
    simp only [GoodElems]
    exact ⟨h.1.1, goodB_sound tk a h.1.2, goodElemsB_sound tk as h.2⟩
theorem goodStmtsB_sound (tk : Name → PTok) : ∀ ss : List Ast, goodStmtsB tk ss = true → GoodStmts tk ss
  | [], _ => by simp [GoodStmts]
  | a :: as, h => by
    simp only [goodStmtsB, Bool.and_eq_true] at h
    simp only [GoodStmts]
    exact ⟨goodB_sound tk a h.1, goodStmtsB_sound tk as h.2⟩
end

end Sqf.Pretty
