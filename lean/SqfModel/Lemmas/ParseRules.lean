import SqfModel.Lemmas.ParseMono
/-!
# Fuel-free view of the parser model: existential predicates with introduction rules
-/
namespace Sqf

def Prim (ts : List PTok) (a : Ast) (r : List PTok) (b : Bool) : Prop := ∃ f, pPrimary f ts = some (a, r, b)
def Exp (k : Nat) (ts : List PTok) (a : Ast) (r : List PTok) : Prop := ∃ f, pExp f k ts = some (a, r)
def Seed (k : Nat) (a : Ast) (ts : List PTok) (a' : Ast) (r : List PTok) : Prop := ∃ f, pExpSeed f k a ts = some (a', r)
def Loop (k : Nat) (acc : Ast) (ts : List PTok) (a : Ast) (r : List PTok) : Prop := ∃ f, pLoop f k acc ts = some (a, r)
def ATail (ts : List PTok) (es : List Ast) (r : List PTok) : Prop := ∃ f, pArrayTail f ts = some (es, r)
def Stmt (ts : List PTok) (s : Ast) (r : List PTok) : Prop := ∃ f, pStatement f ts = some (s, r)
def Stmts (ts : List PTok) (ss : List Ast) (r : List PTok) : Prop := ∃ f, pStatements f ts = some (ss, r)

theorem le_max3_1 (a b c : Nat) : a ≤ max a (max b c) := by omega
theorem le_max3_2 (a b c : Nat) : b ≤ max a (max b c) := by omega
theorem le_max3_3 (a b c : Nat) : c ≤ max a (max b c) := by omega

/-! ### pExpSeed / pExp / pLoop -/

theorem Seed.atTop {k a ts} (h : top ≤ k) : Seed k a ts a ts :=
  ⟨1, by rw [pExpSeed.eq_def]; simp [h]⟩

theorem Seed.step {k a ts a' r t r'} (hk : ¬ top ≤ k) :
    Seed (k + 1) a ts a' r → Loop k a' r t r' → Seed k a ts t r' := by
  rintro ⟨f1, h1⟩ ⟨f2, h2⟩
  refine ⟨max f1 f2 + 1, ?_⟩
  rw [pExpSeed.eq_def]
  simp only [hk, if_false, (mono (Nat.le_max_left f1 f2)).seed _ _ _ _ h1]
  exact (mono (Nat.le_max_right f1 f2)).loop _ _ _ _ h2

theorem Exp.mk {k ts a r b t r'} : Prim ts a r b → Seed k a r t r' → Exp k ts t r' := by
  rintro ⟨f1, h1⟩ ⟨f2, h2⟩
  refine ⟨max f1 f2 + 1, ?_⟩
  rw [pExp.eq_def]
  simp only [(mono (Nat.le_max_left f1 f2)).prim _ _ h1]
  exact (mono (Nat.le_max_right f1 f2)).seed _ _ _ _ h2

theorem Exp.inv {k ts t r'} : Exp k ts t r' → ∃ a r b, Prim ts a r b ∧ Seed k a r t r' := by
  rintro ⟨f, h⟩
  cases f with
  | zero => simp [pExp] at h
  | succ f =>
    rw [pExp.eq_def] at h
    simp only at h
    split at h
    · next a r b hp => exact ⟨a, r, b, ⟨f, hp⟩, ⟨f, h⟩⟩
    · simp at h

theorem Seed.inv_top {k a ts a' r} (hk : top ≤ k) : Seed k a ts a' r → a' = a ∧ r = ts := by
  rintro ⟨f, h⟩
  cases f with
  | zero => simp [pExpSeed] at h
  | succ f =>
    rw [pExpSeed.eq_def] at h
    simp only [hk, if_true, Option.some.injEq, Prod.mk.injEq] at h
    exact ⟨h.1.symm, h.2.symm⟩

theorem Exp.step {k ts a r t r'} (hk : ¬ top ≤ k) :
    Exp (k + 1) ts a r → Loop k a r t r' → Exp k ts t r' := by
  intro he hl
  obtain ⟨p, rp, b, hp, hs⟩ := Exp.inv he
  exact Exp.mk hp (Seed.step hk hs hl)

theorem Exp.ofPrim {k ts a r b} (hk : top ≤ k) : Prim ts a r b → Exp k ts a r :=
  fun hp => Exp.mk hp (Seed.atTop hk)

theorem Exp.toPrim {k ts a r} (hk : top ≤ k) : Exp k ts a r → ∃ b, Prim ts a r b := by
  intro he
  obtain ⟨p, rp, b, hp, hs⟩ := Exp.inv he
  obtain ⟨rfl, rfl⟩ := Seed.inv_top hk hs
  exact ⟨b, hp⟩

theorem Loop.stop_nil {k acc} : Loop k acc [] acc [] := ⟨1, by rw [pLoop.eq_def]⟩

theorem Loop.stop {k acc t r} (h : binOpAt k t = none) : Loop k acc (t :: r) acc (t :: r) :=
  ⟨1, by rw [pLoop.eq_def]; simp [h]⟩

theorem Loop.more {k acc t nm r b r' t' r''} (h : binOpAt k t = some nm) :
    Exp (k + 1) r b r' → Loop k (.binary k nm acc b) r' t' r'' → Loop k acc (t :: r) t' r'' := by
  rintro ⟨f1, h1⟩ ⟨f2, h2⟩
  refine ⟨max f1 f2 + 1, ?_⟩
  rw [pLoop.eq_def]
  simp only [h, (mono (Nat.le_max_left f1 f2)).exp _ _ _ h1]
  exact (mono (Nat.le_max_right f1 f2)).loop _ _ _ _ h2

/-! ### operands -/

theorem Prim.string {t r} : Prim (.string t :: r) (.leaf (.str t)) r true := ⟨1, by rw [pPrimary.eq_def]⟩
theorem Prim.number {t r} : Prim (.number t :: r) (.leaf (.num t)) r true := ⟨1, by rw [pPrimary.eq_def]⟩
theorem Prim.hexnumber {t r} : Prim (.hexnumber t :: r) (.leaf (.hex t)) r true := ⟨1, by rw [pPrimary.eq_def]⟩
theorem Prim.tTrue {r} : Prim (.tTrue :: r) (.leaf .tru) r true := ⟨1, by rw [pPrimary.eq_def]⟩
theorem Prim.tFalse {r} : Prim (.tFalse :: r) (.leaf .fls) r true := ⟨1, by rw [pPrimary.eq_def]⟩
theorem Prim.ident {n r} : Prim (.ident n :: r) (.leaf (.ident n)) r true := ⟨1, by rw [pPrimary.eq_def]⟩
theorem Prim.opN {n r} : Prim (.opN n :: r) (.leaf (.nular n)) r true := ⟨1, by rw [pPrimary.eq_def]⟩
theorem Prim.opBN {l n r} : Prim (.op .bn l n :: r) (.leaf (.nular n)) r true := ⟨1, by rw [pPrimary.eq_def]⟩

theorem Prim.opBUN_nular_nil {l n} : Prim [.op .bun l n] (.leaf (.nular n)) [] true :=
  ⟨1, by rw [pPrimary.eq_def]⟩
theorem Prim.opBUN_nular {l n t r} (h : startsOperand t = false) :
    Prim (.op .bun l n :: t :: r) (.leaf (.nular n)) (t :: r) true :=
  ⟨1, by rw [pPrimary.eq_def]; simp [h]⟩

theorem Prim.opBUN_unary {l n t r a r' b} (h : startsOperand t = true) :
    Prim (t :: r) a r' b → Prim (.op .bun l n :: t :: r) (.unary n a) r' false := by
  rintro ⟨f, hp⟩
  exact ⟨f + 1, by rw [pPrimary.eq_def]; simp [h, hp]⟩
theorem Prim.opBU {l n r a r' b} : Prim r a r' b → Prim (.op .bu l n :: r) (.unary n a) r' false := by
  rintro ⟨f, hp⟩
  exact ⟨f + 1, by rw [pPrimary.eq_def]; simp [hp]⟩
theorem Prim.opU {n r a r' b} : Prim r a r' b → Prim (.opU n :: r) (.unary n a) r' false := by
  rintro ⟨f, hp⟩
  exact ⟨f + 1, by rw [pPrimary.eq_def]; simp [hp]⟩
theorem Prim.opUN {n r a r' b} : Prim r a r' b → Prim (.opUN n :: r) (.unary n a) r' false := by
  rintro ⟨f, hp⟩
  exact ⟨f + 1, by rw [pPrimary.eq_def]; simp [hp]⟩
theorem Prim.tPrivate {r a r' b} : Prim r a r' b → Prim (.tPrivate :: r) (.unary (kwPrivate) a) r' false := by
  rintro ⟨f, hp⟩
  exact ⟨f + 1, by rw [pPrimary.eq_def]; simp [hp]⟩

theorem Prim.paren {r a r'} : Exp 1 r a (.roundC :: r') → Prim (.roundO :: r) a r' false := by
  rintro ⟨f, hp⟩
  exact ⟨f + 1, by rw [pPrimary.eq_def]; simp [hp]⟩

theorem Prim.code {r ss r'} : Stmts (skipSeps r) ss (.curlyC :: r') → Prim (.curlyO :: r) (.code ss) r' true := by
  rintro ⟨f, hp⟩
  exact ⟨f + 1, by rw [pPrimary.eq_def]; simp [hp]⟩

theorem Prim.arrayNil {r} : Prim (.squareO :: .squareC :: r) (.array []) r true := ⟨1, by rw [pPrimary.eq_def]⟩

theorem Prim.arrayCons {r e r' es r''} (hne : ∀ x, r ≠ .squareC :: x) :
    Exp 1 r e r' → ATail r' es r'' → Prim (.squareO :: r) (.array (e :: es)) r'' true := by
  rintro ⟨f1, h1⟩ ⟨f2, h2⟩
  refine ⟨max f1 f2 + 1, ?_⟩
  rw [pPrimary.eq_def]
  have e1 := (mono (Nat.le_max_left f1 f2)).exp _ _ _ h1
  have e2 := (mono (Nat.le_max_right f1 f2)).atail _ _ h2
  cases r with
  | nil => simp [e1, e2]
  | cons t r0 =>
    cases t <;> first | (exfalso; exact hne r0 rfl) | simp [e1, e2]

theorem ATail.nil {r} : ATail (.squareC :: r) [] r := ⟨1, by rw [pArrayTail.eq_def]⟩
theorem ATail.cons {r e r' es r''} : Exp 1 r e r' → ATail r' es r'' → ATail (.comma :: r) (e :: es) r'' := by
  rintro ⟨f1, h1⟩ ⟨f2, h2⟩
  refine ⟨max f1 f2 + 1, ?_⟩
  rw [pArrayTail.eq_def]
  simp [(mono (Nat.le_max_left f1 f2)).exp _ _ _ h1, (mono (Nat.le_max_right f1 f2)).atail _ _ h2]

/-! ### statements -/

theorem Stmt.assignLocal {n r e r'} :
    Exp 1 r e r' → Stmt (.tPrivate :: .ident n :: .equal :: r) (.assignLocal n e) r' := by
  rintro ⟨f, h⟩
  exact ⟨f + 1, by rw [pStatement.eq_def]; simp [h]⟩

/-- the token list does not have the shape `private IDENT = …` -/
def NotPrivAssign (ts : List PTok) : Prop := ∀ n r, ts ≠ .tPrivate :: .ident n :: .equal :: r

theorem Stmt.assign {ts a r e r'} (hnp : NotPrivAssign ts) :
    Prim ts a (.equal :: r) true → Exp 1 r e r' → Stmt ts (.assign a e) r' := by
  rintro ⟨f1, h1⟩ ⟨f2, h2⟩
  refine ⟨max f1 f2 + 1, ?_⟩
  have e1 := (mono (Nat.le_max_left f1 f2)).prim _ _ h1
  have e2 := (mono (Nat.le_max_right f1 f2)).exp _ _ _ h2
  rw [pStatement.eq_def]
  simp only
  split
  · next n r0 => exact absurd rfl (hnp n r0)
  · simp [e1, e2]

theorem Stmt.expr {ts a r b t r'} (hnp : NotPrivAssign ts)
    (hne : b = true → ∀ x, r ≠ .equal :: x) :
    Prim ts a r b → Seed 1 a r t r' → Stmt ts t r' := by
  rintro ⟨f1, h1⟩ ⟨f2, h2⟩
  refine ⟨max f1 f2 + 1, ?_⟩
  have e1 := (mono (Nat.le_max_left f1 f2)).prim _ _ h1
  have e2 := (mono (Nat.le_max_right f1 f2)).seed _ _ _ _ h2
  rw [pStatement.eq_def]
  simp only
  split
  · next n r0 => exact absurd rfl (hnp n r0)
  · rw [e1]
    split
    · next heq =>
      simp only [Option.some.injEq, Prod.mk.injEq] at heq
      obtain ⟨_, hr, hb⟩ := heq
      exact absurd hr (hne hb _)
    · next heq =>
      simp only [Option.some.injEq, Prod.mk.injEq] at heq
      obtain ⟨rfl, rfl, _⟩ := heq
      exact e2
    · next heq => simp at heq

theorem Stmts.nil : Stmts [] [] [] := ⟨1, by rw [pStatements.eq_def]⟩

theorem Stmts.stop {t r} (h : startsOperand t = false) : Stmts (t :: r) [] (t :: r) :=
  ⟨1, by rw [pStatements.eq_def]; simp [h]⟩

theorem Stmts.lastNil {t ts s} (h : startsOperand t = true) :
    Stmt (t :: ts) s [] → Stmts (t :: ts) [s] [] := by
  rintro ⟨f, hs⟩
  exact ⟨f + 1, by rw [pStatements.eq_def]; simp [h, hs]⟩

theorem Stmts.last {t ts s t' r} (h : startsOperand t = true) (hsep : isSep t' = false) :
    Stmt (t :: ts) s (t' :: r) → Stmts (t :: ts) [s] (t' :: r) := by
  rintro ⟨f, hs⟩
  exact ⟨f + 1, by rw [pStatements.eq_def]; simp [h, hs, hsep]⟩

theorem Stmts.more {t ts s t' r ss r'} (h : startsOperand t = true) (hsep : isSep t' = true) :
    Stmt (t :: ts) s (t' :: r) → Stmts (skipSeps (t' :: r)) ss r' → Stmts (t :: ts) (s :: ss) r' := by
  rintro ⟨f1, h1⟩ ⟨f2, h2⟩
  refine ⟨max f1 f2 + 1, ?_⟩
  have e1 := (mono (Nat.le_max_left f1 f2)).stmt _ _ h1
  have e2 := (mono (Nat.le_max_right f1 f2)).stmts _ _ h2
  rw [pStatements.eq_def]
  simp [h, e1, hsep, e2]

/-! ### inversion: nothing happens in front of a token that is no binary operator -/

theorem Loop.inv_stop {k acc t r x y} (h : binOpAt k t = none) :
    Loop k acc (t :: r) x y → x = acc ∧ y = t :: r := by
  rintro ⟨f, hf⟩
  cases f with
  | zero => simp [pLoop] at hf
  | succ f =>
    rw [pLoop.eq_def] at hf
    simp only [h, Option.some.injEq, Prod.mk.injEq] at hf
    exact ⟨hf.1.symm, hf.2.symm⟩

theorem Seed.inv_stop {t r} (h : ∀ j, binOpAt j t = none) :
    ∀ d k a x y, k + d = top → Seed k a (t :: r) x y → x = a ∧ y = t :: r := by
  intro d
  induction d with
  | zero => intro k a x y hk hs; exact Seed.inv_top (by omega) hs
  | succ d ih =>
    intro k a x y hk hs
    obtain ⟨f, hf⟩ := hs
    cases f with
    | zero => simp [pExpSeed] at hf
    | succ f =>
      rw [pExpSeed.eq_def] at hf
      have hk' : ¬ top ≤ k := by omega
      simp only [hk', if_false] at hf
      split at hf
      · next a' r1 hp =>
        obtain ⟨rfl, rfl⟩ := ih (k + 1) a a' r1 (by omega) ⟨f, hp⟩
        exact Loop.inv_stop (h k) ⟨f, hf⟩
      · simp at hf

end Sqf
