import SqfModel.Lemmas.CfgParse
/-!
# The config tokenizer reads back the canonical text of a token sequence (helper lemmas for C15)

`renderToks ts` writes every token followed by one blank.  For tokens of the forms `lexable` describes, the
tokenizer (`next`, any position counters) followed by `attach` returns exactly `ts` and the end-of-file token.
-/
namespace Sqf.CfgText
open Sqf Sqf.Cfg

/-! ## small list facts -/

theorem take_len_append {α} (a b : List α) : (a ++ b).take a.length = a := by
  induction a with
  | nil => simp
  | cons x xs ih => simp [ih]

theorem drop_len_append {α} (a b : List α) : (a ++ b).drop a.length = b := by
  induction a with
  | nil => simp
  | cons x xs ih => simp [ih]

theorem lenWhile_append_stop (p : B → Bool) (a : List B) (c : B) (r : List B) (ha : a.all p = true) (hc : p c = false) :
    lenWhile p (a ++ c :: r) = a.length := by
  induction a with
  | nil => simp [lenWhile, hc]
  | cons x xs ih =>
    simp only [List.all_cons, Bool.and_eq_true] at ha
    simp [lenWhile, ha.1, ih ha.2]

/-! ## the position-free view of one tokenizer step -/

/-- `next` on any state whose input is `s` yields a token of kind `k` with text `t` and leaves `r` -/
def Steps (s : List B) (k : CK) (t r : List B) : Prop :=
  ∀ l c o, (next { rest := s, line := l, col := c, off := o }).1.kind = k ∧
    (next { rest := s, line := l, col := c, off := o }).1.text = t ∧
    (next { rest := s, line := l, col := c, off := o }).2.rest = r

/-- a candidate list whose first candidate matches with length `n` -/
theorem next_of_first (s : List B) (c0 : B) (cs : List B) (hs : s = c0 :: cs) (k : CK) (ks : List CK)
    (hc : candidates c0 = some (k :: ks)) (n : Nat) (hn : n ≠ 0)
    (hm : ∀ l c o, ∃ m, matchKind { rest := s, line := l, col := c, off := o } k = some m ∧ m.len = n) :
    Steps s k (s.take n) (s.drop n) := by
  intro l c o
  obtain ⟨m, hm1, hm2⟩ := hm l c o
  subst hs
  subst hm2
  simp [next, hc, tryMatch, hm1, hn]

/-- the same when the first candidate does not match and the second does -/
theorem next_of_second (s : List B) (c0 : B) (cs : List B) (hs : s = c0 :: cs) (k0 k : CK) (ks : List CK)
    (hc : candidates c0 = some (k0 :: k :: ks)) (n : Nat) (hn : n ≠ 0)
    (h0 : ∀ l c o, matchKind { rest := s, line := l, col := c, off := o } k0 = none)
    (hm : ∀ l c o, ∃ m, matchKind { rest := s, line := l, col := c, off := o } k = some m ∧ m.len = n) :
    Steps s k (s.take n) (s.drop n) := by
  intro l c o
  obtain ⟨m, hm1, hm2⟩ := hm l c o
  subst hs
  subst hm2
  simp [next, hc, tryMatch, h0 l c o, hm1, hn]

/-! ## punctuation, keywords -/

theorem steps_punct (ch : B) (k : CK) (r : List B)
    (hc : candidates ch = some [k])
    (hk : ∀ st, matchKind st k = some { len := 1, line := st.line, col := st.col + 1 }) :
    Steps (ch :: 32 :: r) k [ch] (32 :: r) := by
  have := next_of_first (ch :: 32 :: r) ch (32 :: r) rfl k [] hc 1 (by decide)
    (fun l c o => ⟨_, hk _, rfl⟩)
  simpa using this

theorem steps_curlyO (r) : Steps (123 :: 32 :: r) .curlyO [123] (32 :: r) :=
  steps_punct 123 .curlyO r (by decide) (fun st => by simp [matchKind])
theorem steps_curlyC (r) : Steps (125 :: 32 :: r) .curlyC [125] (32 :: r) :=
  steps_punct 125 .curlyC r (by decide) (fun st => by simp [matchKind])
theorem steps_edgeO (r) : Steps (91 :: 32 :: r) .edgeO [91] (32 :: r) :=
  steps_punct 91 .edgeO r (by decide) (fun st => by simp [matchKind])
theorem steps_edgeC (r) : Steps (93 :: 32 :: r) .edgeC [93] (32 :: r) :=
  steps_punct 93 .edgeC r (by decide) (fun st => by simp [matchKind])
theorem steps_colon (r) : Steps (58 :: 32 :: r) .colon [58] (32 :: r) :=
  steps_punct 58 .colon r (by decide) (fun st => by simp [matchKind])
theorem steps_semicolon (r) : Steps (59 :: 32 :: r) .semicolon [59] (32 :: r) :=
  steps_punct 59 .semicolon r (by decide) (fun st => by simp [matchKind])
theorem steps_comma (r) : Steps (44 :: 32 :: r) .comma [44] (32 :: r) :=
  steps_punct 44 .comma r (by decide) (fun st => by simp [matchKind])
theorem steps_equal (r) : Steps (61 :: 32 :: r) .equal [61] (32 :: r) :=
  steps_punct 61 .equal r (by decide) (fun st => by simp [matchKind])

theorem steps_class (r) : Steps (kwClass ++ 32 :: r) .tClass kwClass (32 :: r) := by
  have := next_of_first (kwClass ++ 32 :: r) 99 ([108, 97, 115, 115] ++ 32 :: r) rfl .tClass [.ident] (by decide) 5 (by decide)
    (fun l c o => ⟨_, by simp [matchKind, kwClass, lenIdentMatch, toLower, isUpperAlpha, isLowerAlpha]; rfl, rfl⟩)
  simpa [kwClass] using this

theorem steps_delete (r) : Steps (kwDelete ++ 32 :: r) .tDelete kwDelete (32 :: r) := by
  have := next_of_first (kwDelete ++ 32 :: r) 100 ([101, 108, 101, 116, 101] ++ 32 :: r) rfl .tDelete [.ident] (by decide) 6 (by decide)
    (fun l c o => ⟨_, by simp [matchKind, kwDelete, lenIdentMatch, toLower, isUpperAlpha, isLowerAlpha]; rfl, rfl⟩)
  simpa [kwDelete] using this

theorem steps_plusEq (r) : Steps (kwPlusEq ++ 32 :: r) .plusEqual kwPlusEq (32 :: r) := by
  have := next_of_first (kwPlusEq ++ 32 :: r) 43 ([61] ++ 32 :: r) rfl .plusEqual [.number, .any] (by decide) 2 (by decide)
    (fun l c o => ⟨_, by simp [matchKind, kwPlusEq, lenIdentMatch, toLower, isUpperAlpha, isLowerAlpha]; rfl, rfl⟩)
  simpa [kwPlusEq] using this

/-! ## identifiers -/

theorem lenIdentMatch_indep (k : List B) (hk : ∀ x ∈ k, x ≠ 32) :
    ∀ (a r : List B) (n : Nat), lenIdentMatch k (a ++ 32 :: r) n = lenIdentMatch k (a ++ [32]) n := by
  induction k with
  | nil =>
    intro a r n
    cases a with
    | nil => simp [lenIdentMatch]
    | cons x xs => simp [lenIdentMatch]
  | cons k0 ks ih =>
    intro a r n
    have h0 : k0 ≠ 32 := hk k0 List.mem_cons_self
    cases a with
    | nil =>
      have : toLower 32 ≠ k0 := by simp [toLower, isUpperAlpha]; exact fun h => h0 h.symm
      simp [lenIdentMatch, this]
    | cons x xs =>
      simp only [List.cons_append, lenIdentMatch]
      split
      · exact ih (fun y hy => hk y (List.mem_cons_of_mem _ hy)) xs r (n + 1)
      · rfl

/-- a name the tokenizer reads as one identifier: a letter or `_` first, letters, digits and `_` behind it, and not
    the word `class` or `delete` (in any case) followed by a character that is not a letter -/
def identOk (t : List B) : Bool :=
  match t with
  | [] => false
  | c :: cs => (isAlpha c || c == 95) && (c :: cs).all isIdentChar
      && lenIdentMatch kwClass (c :: cs ++ [32]) 0 == 0 && lenIdentMatch kwDelete (c :: cs ++ [32]) 0 == 0

theorem steps_ident (t r : List B) (h : identOk t = true) : Steps (t ++ 32 :: r) .ident t (32 :: r) := by
  cases t with
  | nil => simp [identOk] at h
  | cons c cs =>
    simp only [identOk, Bool.and_eq_true, beq_iff_eq] at h
    obtain ⟨⟨⟨hfirst, hall⟩, hcl⟩, hdel⟩ := h
    have hlen : lenWhile isIdentChar ((c :: cs) ++ 32 :: r) = (c :: cs).length :=
      lenWhile_append_stop isIdentChar (c :: cs) 32 r hall (by decide)
    have hcl' : lenIdentMatch kwClass ((c :: cs) ++ 32 :: r) 0 = 0 := by
      rw [lenIdentMatch_indep kwClass (by decide)]; exact hcl
    have hdel' : lenIdentMatch kwDelete ((c :: cs) ++ 32 :: r) 0 = 0 := by
      rw [lenIdentMatch_indep kwDelete (by decide)]; exact hdel
    have hm : ∀ l c' o, ∃ m, matchKind { rest := (c :: cs) ++ 32 :: r, line := l, col := c', off := o } .ident = some m ∧ m.len = (c :: cs).length := by
      intro l c' o
      refine ⟨{ len := (c :: cs).length, line := l, col := c' + (c :: cs).length }, ?_, rfl⟩
      simp only [matchKind, hlen]
      simp
    have key : Steps ((c :: cs) ++ 32 :: r) .ident (((c :: cs) ++ 32 :: r).take (c :: cs).length) (((c :: cs) ++ 32 :: r).drop (c :: cs).length) := by
      by_cases h1 : (c == 99 || c == 67) = true
      · refine next_of_second _ c (cs ++ 32 :: r) rfl .tClass .ident [] (by simp [candidates, h1]) _ (by simp) ?_ hm
        intro l c' o
        have := hcl'
        simp only [List.cons_append] at this
        simp [matchKind, this]
      · by_cases h2 : (c == 100 || c == 68) = true
        · refine next_of_second _ c (cs ++ 32 :: r) rfl .tDelete .ident [] (by simp [candidates, h1, h2]) _ (by simp) ?_ hm
          intro l c' o
          have := hdel'
          simp only [List.cons_append] at this
          simp [matchKind, this]
        · refine next_of_first _ c (cs ++ 32 :: r) rfl .ident [] ?_ _ (by simp) hm
          simp only [Bool.not_eq_true] at h1 h2
          simp [candidates, h1, h2, hfirst]
    rw [take_len_append, drop_len_append] at key
    exact key

end Sqf.CfgText
