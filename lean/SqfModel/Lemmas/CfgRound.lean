import SqfModel.Lemmas.CfgLexNum
/-!
# The config front end reads the canonical text of a tree back as that tree (helper lemmas for C15)
-/
set_option linter.unusedSimpArgs false
namespace Sqf.CfgText
open Sqf Sqf.Cfg

/-! ## trees whose canonical text the tokenizer reads back -/

mutual
def litOk : Lit → Bool
  | .dec t => numOk t
  | .hex t => hexOk t
  | .str t => (match t with | 39 :: _ => strOk 39 t | _ => strOk 34 t)
  | .text t => identOk t
  | .arr xs => litsOk xs
def litsOk : List Lit → Bool
  | [] => true
  | x :: xs => litOk x && litsOk xs
end

mutual
def nodeOk : Node → Bool
  | .classDef n => identOk n
  | .classDefExt n b => identOk n && identOk b
  | .cls n body => identOk n && nodesOk body
  | .clsExt n b body => identOk n && identOk b && nodesOk body
  | .del n => identOk n
  | .field n v => identOk n && litOk v
  | .fieldArr n v => identOk n && litOk v
  | .fieldArrAppend n v => identOk n && litOk v
def nodesOk : List Node → Bool
  | [] => true
  | x :: xs => nodeOk x && nodesOk xs
end

theorem litOk_lexable : ∀ l : Lit, litOk l = true → ∀ t ∈ toksLit l, lexable t = true := by
  intro l
  apply sizeLit.induct (motive_1 := fun l => litOk l = true → ∀ t ∈ toksLit l, lexable t = true)
    (motive_2 := fun xs => litsOk xs = true → (∀ t ∈ toksLits xs, lexable t = true) ∧ (∀ t ∈ toksMore xs, lexable t = true))
  · intro t h u hu
    simp only [toksLit, List.mem_singleton] at hu; subst hu
    simpa [lexable, mk, litOk] using h
  · intro t h u hu
    simp only [toksLit, List.mem_singleton] at hu; subst hu
    simpa [lexable, mk, litOk] using h
  · intro t h u hu
    simp only [toksLit, List.mem_singleton] at hu; subst hu
    simp only [litOk] at h
    unfold strKind
    split at h
    · simpa [lexable, mk] using h
    · next hn =>
      split
      · next t' => exact absurd rfl (hn t')
      · simpa [lexable, mk] using h
  · intro t h u hu
    simp only [toksLit, List.mem_singleton] at hu; subst hu
    simpa [lexable, mk, litOk] using h
  · intro xs ih h u hu
    simp only [litOk] at h
    simp only [toksLit, List.mem_cons, List.mem_append, List.mem_singleton, List.not_mem_nil, or_false] at hu
    rcases hu with rfl | hu | rfl
    · simp [lexable, mk]
    · exact (ih h).1 u hu
    · simp [lexable, mk]
  · intro _
    simp [toksLits, toksMore]
  · intro x xs ihx ihxs h
    simp only [litsOk, Bool.and_eq_true] at h
    have hx := ihx h.1
    have hxs := ihxs h.2
    constructor
    · intro t ht
      simp only [toksLits, List.mem_append] at ht
      rcases ht with ht | ht
      · exact hx t ht
      · exact hxs.2 t ht
    · intro t ht
      simp only [toksMore, List.mem_cons, List.mem_append] at ht
      rcases ht with rfl | ht | ht
      · simp [lexable, mk]
      · exact hx t ht
      · exact hxs.2 t ht

theorem lex_ident (n : List B) (h : identOk n = true) : lexable (mk .ident n) = true := by
  simpa [lexable, mk] using h

theorem nodeOk_lexable : ∀ x : Node, nodeOk x = true → ∀ t ∈ toksNode x, lexable t = true := by
  intro x
  apply sizeNode.induct (motive_1 := fun x => nodeOk x = true → ∀ t ∈ toksNode x, lexable t = true)
    (motive_2 := fun xs => nodesOk xs = true → ∀ t ∈ toksBody xs, lexable t = true)
  · intro n h t ht
    simp only [nodeOk] at h
    simp only [toksNode, List.mem_cons, List.not_mem_nil, or_false] at ht
    rcases ht with rfl | rfl
    · simp [lexable, mk]
    · exact lex_ident n h
  · intro n b h t ht
    simp only [nodeOk, Bool.and_eq_true] at h
    simp only [toksNode, List.mem_cons, List.not_mem_nil, or_false] at ht
    rcases ht with rfl | rfl | rfl | rfl
    · simp [lexable, mk]
    · exact lex_ident n h.1
    · simp [lexable, mk]
    · exact lex_ident b h.2
  · intro n body ih h t ht
    simp only [nodeOk, Bool.and_eq_true] at h
    simp only [toksNode, List.mem_cons, List.mem_append, List.not_mem_nil, or_false] at ht
    rcases ht with rfl | rfl | rfl | ht | rfl
    · simp [lexable, mk]
    · exact lex_ident n h.1
    · simp [lexable, mk]
    · exact ih h.2 t ht
    · simp [lexable, mk]
  · intro n b body ih h t ht
    simp only [nodeOk, Bool.and_eq_true] at h
    simp only [toksNode, List.mem_cons, List.mem_append, List.not_mem_nil, or_false] at ht
    rcases ht with rfl | rfl | rfl | rfl | rfl | ht | rfl
    · simp [lexable, mk]
    · exact lex_ident n h.1.1
    · simp [lexable, mk]
    · exact lex_ident b h.1.2
    · simp [lexable, mk]
    · exact ih h.2 t ht
    · simp [lexable, mk]
  · intro n h t ht
    simp only [nodeOk] at h
    simp only [toksNode, List.mem_cons, List.not_mem_nil, or_false] at ht
    rcases ht with rfl | rfl
    · simp [lexable, mk]
    · exact lex_ident n h
  · intro n v h t ht
    simp only [nodeOk, Bool.and_eq_true] at h
    simp only [toksNode, List.mem_cons] at ht
    rcases ht with rfl | rfl | ht
    · exact lex_ident n h.1
    · simp [lexable, mk]
    · exact litOk_lexable v h.2 t ht
  · intro n v h t ht
    simp only [nodeOk, Bool.and_eq_true] at h
    simp only [toksNode, List.mem_cons] at ht
    rcases ht with rfl | rfl | rfl | rfl | ht
    · exact lex_ident n h.1
    · simp [lexable, mk]
    · simp [lexable, mk]
    · simp [lexable, mk]
    · exact litOk_lexable v h.2 t ht
  · intro n v h t ht
    simp only [nodeOk, Bool.and_eq_true] at h
    simp only [toksNode, List.mem_cons] at ht
    rcases ht with rfl | rfl | rfl | rfl | ht
    · exact lex_ident n h.1
    · simp [lexable, mk]
    · simp [lexable, mk]
    · simp [lexable, mk, kwPlusEq]
    · exact litOk_lexable v h.2 t ht
  · intro _ t ht
    simp [toksBody] at ht
  · intro x xs ihx ihxs h t ht
    simp only [nodesOk, Bool.and_eq_true] at h
    simp only [toksBody, List.mem_append, List.mem_cons] at ht
    rcases ht with ht | rfl | ht
    · exact ihx h.1 t ht
    · simp [lexable, mk]
    · exact ihxs h.2 t ht

theorem nodesOk_lexable (ns : List Node) (h : nodesOk ns = true) : ∀ t ∈ toksBody ns, lexable t = true := by
  induction ns with
  | nil => intro t ht; simp [toksBody] at ht
  | cons x xs ih =>
    intro t ht
    simp only [nodesOk, Bool.and_eq_true] at h
    simp only [toksBody, List.mem_append, List.mem_cons] at ht
    rcases ht with ht | rfl | ht
    · exact nodeOk_lexable x h.1 t ht
    · simp [lexable, mk]
    · exact ih h.2 t ht

/-- the canonical text of a tree: every token followed by one blank -/
def cfgText (ns : List Node) : List B := renderToks (toksBody ns)

/-- **the config front end reads the canonical text of a tree back as that tree** -/
theorem parseText_cfgText (ns : List Node) (hshape : shapeTop ns = true) (hok : nodesOk ns = true)
    (hdeep : tooDeep (toksTop ns) 0 = false) : parseText (cfgText ns) = some ns := by
  have htok : tokens (cfgText ns) = toksTop ns := tokens_render (toksBody ns) (nodesOk_lexable ns hok)
  unfold parseText
  simp only [htok, hdeep, Bool.false_eq_true, ↓reduceIte]
  exact pTop_toks ns hshape _ (sizeNodes_le ns)

/-- the value of a printed string literal is the string: quoting with either quote character is undone by `from_sqf` -/
theorem unquote_quoteBody (q : B) (b : List B) : unquoteBody q (quoteBody q b ++ [q]) = b := by
  induction b with
  | nil => simp [quoteBody, unquoteBody]
  | cons x xs ih =>
    by_cases hx : x = q
    · subst hx
      simp only [quoteBody, beq_self_eq_true, ↓reduceIte, List.cons_append]
      rw [unquoteBody]
      simp [ih]
    · have hxq : (x == q) = false := by simpa using hx
      simp only [quoteBody, hxq, Bool.false_eq_true, ↓reduceIte, List.cons_append]
      cases hrest : quoteBody q xs ++ [q] with
      | nil => simp at hrest
      | cons y ys =>
        rw [unquoteBody]
        simp only [hxq, Bool.false_and, Bool.false_eq_true, ↓reduceIte]
        rw [← hrest, ih]

theorem fromSqf_quoted (q : B) (hq : q = 34 ∨ q = 39) (b : List B) : fromSqf (q :: (quoteBody q b ++ [q])) = b := by
  rcases hq with rfl | rfl <;> simp [fromSqf, unquote_quoteBody]

/-- every string has a literal the tokenizer accepts -/
theorem strOk_quoted (q : B) (hq : q = 34 ∨ q = 39) (b : List B) : strOk q (q :: (quoteBody q b ++ [q])) = true := by
  simp [strOk, fromSqf_quoted q hq b]
end Sqf.CfgText
