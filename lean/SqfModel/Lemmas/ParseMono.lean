import SqfModel.Parse
/-!
# Fuel monotonicity of the parser model

If a parser function succeeds with fuel `f` it succeeds with the same result for every larger fuel.
This lets the property theorems hide fuel behind existential predicates.
-/
namespace Sqf

/-- all seven parser functions agree at fuel `f'` with their successful results at fuel `f` -/
structure MonoAt (f f' : Nat) : Prop where
  prim : ∀ ts r, pPrimary f ts = some r → pPrimary f' ts = some r
  exp : ∀ k ts r, pExp f k ts = some r → pExp f' k ts = some r
  seed : ∀ k a ts r, pExpSeed f k a ts = some r → pExpSeed f' k a ts = some r
  loop : ∀ k a ts r, pLoop f k a ts = some r → pLoop f' k a ts = some r
  atail : ∀ ts r, pArrayTail f ts = some r → pArrayTail f' ts = some r
  stmt : ∀ ts r, pStatement f ts = some r → pStatement f' ts = some r
  stmts : ∀ ts r, pStatements f ts = some r → pStatements f' ts = some r

theorem mono_prim_step (f : Nat) (ih : MonoAt f (f + 1)) :
    ∀ ts r, pPrimary (f + 1) ts = some r → pPrimary (f + 2) ts = some r := by
  intro ts r h
  rw [pPrimary.eq_def] at h ⊢
  simp only at h ⊢
  split at h
  all_goals first
    | exact h
    | (split at h
       · next hp => simp only [ih.prim _ _ hp]; exact h
       · simp at h)
    | skip
  · -- BUN: unary if the next token starts an operand, else nular
    split at h
    · split at h
      · next hs =>
        split at h
        · next hp => simp only [hs, if_true, ih.prim _ _ hp]; exact h
        · simp at h
      · next hs => simp only [hs]; exact h
    · exact h
  · -- ( expression )
    split at h
    · next hp => simp only [ih.exp _ _ _ hp]; exact h
    · simp at h
  · -- { statements }
    split at h
    · next hp => simp only [ih.stmts _ _ hp]; exact h
    · simp at h
  · -- [ e, ... ]
    split at h
    · next hp =>
      split at h
      · next hq => simp only [ih.exp _ _ _ hp, ih.atail _ _ hq]; exact h
      · simp at h
    · simp at h

theorem mono_exp_step (f : Nat) (ih : MonoAt f (f + 1)) :
    ∀ k ts r, pExp (f + 1) k ts = some r → pExp (f + 2) k ts = some r := by
  intro k ts r h
  rw [pExp.eq_def] at h ⊢
  simp only at h ⊢
  split at h
  · next hp => simp only [ih.prim _ _ hp]; exact ih.seed _ _ _ _ h
  · simp at h

theorem mono_seed_step (f : Nat) (ih : MonoAt f (f + 1)) :
    ∀ k a ts r, pExpSeed (f + 1) k a ts = some r → pExpSeed (f + 2) k a ts = some r := by
  intro k a ts r h
  rw [pExpSeed.eq_def] at h ⊢
  simp only at h ⊢
  split at h
  · next hk => simp only [hk, if_true]; exact h
  · next hk =>
    simp only [hk, if_false]
    split at h
    · next hp => simp only [ih.seed _ _ _ _ hp]; exact ih.loop _ _ _ _ h
    · simp at h

theorem mono_loop_step (f : Nat) (ih : MonoAt f (f + 1)) :
    ∀ k a ts r, pLoop (f + 1) k a ts = some r → pLoop (f + 2) k a ts = some r := by
  intro k a ts r h
  rw [pLoop.eq_def] at h ⊢
  simp only at h ⊢
  split at h
  · split at h
    · next hb =>
      split at h
      · next hp => simp only [ih.exp _ _ _ hp]; exact ih.loop _ _ _ _ h
      · simp at h
    · next hb => exact h
  · exact h

theorem mono_atail_step (f : Nat) (ih : MonoAt f (f + 1)) :
    ∀ ts r, pArrayTail (f + 1) ts = some r → pArrayTail (f + 2) ts = some r := by
  intro ts r h
  rw [pArrayTail.eq_def] at h ⊢
  simp only at h ⊢
  split at h
  · exact h
  · split at h
    · next hp =>
      split at h
      · next hq => simp only [ih.exp _ _ _ hp, ih.atail _ _ hq]; exact h
      · simp at h
    · simp at h
  · simp at h

theorem mono_stmt_step (f : Nat) (ih : MonoAt f (f + 1)) :
    ∀ ts r, pStatement (f + 1) ts = some r → pStatement (f + 2) ts = some r := by
  intro ts r h
  rw [pStatement.eq_def] at h ⊢
  simp only at h ⊢
  split at h
  · split at h
    · next hp => simp only [ih.exp _ _ _ hp]; exact h
    · simp at h
  · split at h
    · next hp =>
      simp only [ih.prim _ _ hp]
      split at h
      · next hq => simp only [ih.exp _ _ _ hq]; exact h
      · simp at h
    · next hp => simp only [ih.prim _ _ hp]; exact ih.seed _ _ _ _ h
    · simp at h

theorem mono_stmts_step (f : Nat) (ih : MonoAt f (f + 1)) :
    ∀ ts r, pStatements (f + 1) ts = some r → pStatements (f + 2) ts = some r := by
  intro ts r h
  rw [pStatements.eq_def] at h ⊢
  simp only at h ⊢
  split at h
  · exact h
  · split at h
    · next hs =>
      simp only [hs, if_true]
      split at h
      · next hp =>
        simp only [ih.stmt _ _ hp]
        split at h
        · split at h
          · next hsep =>
            simp only [hsep, if_true]
            split at h
            · next hq => simp only [ih.stmts _ _ hq]; exact h
            · simp at h
          · next hsep => simp only [hsep]; exact h
        · exact h
      · simp at h
    · next hs => simp only [hs]; exact h

theorem mono_zero : MonoAt 0 1 := by
  constructor <;> intros <;> simp_all [pPrimary, pExp, pExpSeed, pLoop, pArrayTail, pStatement, pStatements]

theorem mono_succ : ∀ f, MonoAt f (f + 1) := by
  intro f
  induction f with
  | zero => exact mono_zero
  | succ f ih =>
    exact ⟨mono_prim_step f ih, mono_exp_step f ih, mono_seed_step f ih, mono_loop_step f ih,
           mono_atail_step f ih, mono_stmt_step f ih, mono_stmts_step f ih⟩

theorem mono {f f' : Nat} (h : f ≤ f') : MonoAt f f' := by
  induction h with
  | refl => exact ⟨fun _ _ h => h, fun _ _ _ h => h, fun _ _ _ _ h => h, fun _ _ _ _ h => h,
                   fun _ _ h => h, fun _ _ h => h, fun _ _ h => h⟩
  | step _ ih =>
    rename_i m _
    have s := mono_succ m
    exact ⟨fun a b h => s.prim _ _ (ih.prim a b h), fun a b c h => s.exp _ _ _ (ih.exp a b c h),
           fun a b c d h => s.seed _ _ _ _ (ih.seed a b c d h), fun a b c d h => s.loop _ _ _ _ (ih.loop a b c d h),
           fun a b h => s.atail _ _ (ih.atail a b h), fun a b h => s.stmt _ _ (ih.stmt a b h),
           fun a b h => s.stmts _ _ (ih.stmts a b h)⟩

end Sqf
