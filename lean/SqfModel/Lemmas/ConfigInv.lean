import SqfModel.Config
/-!
# Invariants of the config tree model

`Inv h` bundles what every reachable container table satisfies:

* `Bounded`  – every id stored anywhere (child maps, own-entry vectors, parent links) is a valid index
               of the table (`m_containers.at(id)` never throws, `m_containers[id]` is in range);
* `Acyclic`  – following `id_parent_inherited` from any container ends (`InhEnds`);
* `LogDown`  – the logical parent of a container has a smaller id (so the logical chain ends too).

The lemmas show that `appendOrReplace`, `deleteEntry`, `setValue` and hence `applyNode(s)` / `load`
preserve it.
-/
set_option linter.unusedSimpArgs false
set_option linter.unusedVariables false
namespace Sqf.Cfg

/-! ## get / set -/

theorem get_set (h : Host) (i j : Nat) (c : Cont) :
    (h.set i c).get j = if j = i ∧ i < h.size then c else h.get j := by
  unfold Host.set Host.get Host.size
  simp only [List.getD_eq_getElem?_getD, List.getElem?_set]
  by_cases hji : j = i
  · subst hji
    by_cases hlt : j < h.conts.length
    · simp [hlt]
    · have : h.conts[j]? = none := by simp; omega
      simp [hlt, this]
  · simp [hji, Ne.symm hji]

theorem size_set (h : Host) (i : Nat) (c : Cont) : (h.set i c).size = h.size := by
  simp [Host.set, Host.size]

theorem get_ge (h : Host) (i : Nat) (hi : h.size ≤ i) : h.get i = { name := [] } := by
  unfold Host.get Host.size at *
  simp [List.getD_eq_getElem?_getD, List.getElem?_eq_none hi]

theorem get_append_lt (h : Host) (c : Cont) (i : Nat) (hi : i < h.size) :
    ({ conts := h.conts ++ [c] } : Host).get i = h.get i := by
  unfold Host.get Host.size at *
  simp [List.getD_eq_getElem?_getD, List.getElem?_append_left hi]

theorem get_append_eq (h : Host) (c : Cont) :
    ({ conts := h.conts ++ [c] } : Host).get h.size = c := by
  unfold Host.get Host.size
  simp [List.getD_eq_getElem?_getD]

theorem size_append (h : Host) (c : Cont) : ({ conts := h.conts ++ [c] } : Host).size = h.size + 1 := by
  simp [Host.size]

/-! ## the child map -/

theorem findKey_setKey (m : List (List B × Option Nat)) (k k' : List B) (v : Option Nat) :
    findKey (setKey m k v) k' = if k' = k then some v else findKey m k' := by
  induction m with
  | nil =>
    by_cases hk : k' = k
    · simp [setKey, findKey, hk]
    · have : ¬ k = k' := fun e => hk e.symm
      simp [setKey, findKey, hk, this]
  | cons e rest ih =>
    obtain ⟨a, w⟩ := e
    by_cases hak : a = k
    · subst hak
      by_cases hk : k' = a
      · simp [setKey, findKey, hk]
      · have : ¬ a = k' := fun e => hk e.symm
        simp [setKey, findKey, hk, this]
    · by_cases hk : k' = k
      · subst hk
        simp [setKey, findKey, hak, ih]
      · by_cases hak' : a = k'
        · simp [setKey, findKey, hak, hak', hk]
        · simp [setKey, findKey, hak, hak', hk, ih]

/-- ids the container mentions -/
def Cont.Bounded (c : Cont) (n : Nat) : Prop :=
  (∀ k v, findKey c.map k = some (some v) → v < n) ∧ (∀ v, v ∈ c.vec → v < n) ∧
  (∀ j, c.inherited = some j → j < n) ∧ (∀ j, c.logical = some j → j < n)

theorem Cont.Bounded.mono {c : Cont} {n m : Nat} (hb : c.Bounded n) (hnm : n ≤ m) : c.Bounded m :=
  ⟨fun k v hf => Nat.lt_of_lt_of_le (hb.1 k v hf) hnm, fun v hv => Nat.lt_of_lt_of_le (hb.2.1 v hv) hnm,
   fun j hj => Nat.lt_of_lt_of_le (hb.2.2.1 j hj) hnm, fun j hj => Nat.lt_of_lt_of_le (hb.2.2.2 j hj) hnm⟩

theorem pushBack_inherited (c : Cont) (k : List B) (t : Option Nat) : (c.pushBack k t).inherited = c.inherited := rfl
theorem pushBack_logical (c : Cont) (k : List B) (t : Option Nat) : (c.pushBack k t).logical = c.logical := rfl
theorem pushBack_value (c : Cont) (k : List B) (t : Option Nat) : (c.pushBack k t).value = c.value := rfl
theorem pushBack_name (c : Cont) (k : List B) (t : Option Nat) : (c.pushBack k t).name = c.name := rfl

/-- what `find` answers after `push_back(key, t)`: the key now maps to `t`, nothing else changed -/
theorem findKey_pushBack (c : Cont) (k k' : List B) (t : Option Nat) :
    findKey (c.pushBack k t).map k' = if k' = k then some t else findKey c.map k' := by
  unfold Cont.pushBack
  exact findKey_setKey _ _ _ _

theorem mem_pushVec (vec : List Nat) (old : Option (Option Nat)) (t : Option Nat) (v : Nat)
    (hv : v ∈ pushVec vec old t) : v ∈ vec ∨ t = some v := by
  unfold pushVec at hv
  split at hv
  · split at hv
    · exact Or.inl hv
    · simp only [List.mem_map] at hv
      obtain ⟨x, hx, hxe⟩ := hv
      split at hxe
      · right; rw [hxe]
      · left; rw [← hxe]; exact hx
  · simp only [List.mem_filter] at hv
    exact Or.inl hv.1
  · simp only [List.mem_append, List.mem_singleton] at hv
    rcases hv with hv | hv
    · exact Or.inl hv
    · right; rw [hv]
  · exact Or.inl hv

theorem pushBack_bounded (c : Cont) (k : List B) (t : Option Nat) (n : Nat) (hb : c.Bounded n)
    (ht : ∀ v, t = some v → v < n) : (c.pushBack k t).Bounded n := by
  refine ⟨?_, ?_, ?_, ?_⟩
  · intro k' v hf
    rw [findKey_pushBack] at hf
    split at hf
    · exact ht v (by simpa using hf)
    · exact hb.1 k' v hf
  · intro v hv
    rcases mem_pushVec _ _ _ _ hv with h1 | h1
    · exact hb.2.1 v h1
    · exact ht v h1
  · intro j hj; exact hb.2.2.1 j hj
  · intro j hj; exact hb.2.2.2 j hj

/-! ## the invariant -/

/-- the chain of inherited parents starting at `o` ends -/
inductive InhEnds (h : Host) : Option Nat → Prop
  | none : InhEnds h none
  | step (i : Nat) : InhEnds h (h.get i).inherited → InhEnds h (some i)

structure Inv (h : Host) : Prop where
  pos : 0 < h.size
  bounded : ∀ i, (h.get i).Bounded h.size
  acyclic : ∀ i, InhEnds h (some i)
  logDown : ∀ i j, (h.get i).logical = some j → j < i

theorem default_bounded (n : Nat) : ({ name := [] } : Cont).Bounded n :=
  ⟨fun k v hf => by simp [findKey] at hf, fun v hv => by simp at hv, fun j hj => by simp at hj, fun j hj => by simp at hj⟩

/-- the fresh host (only the root container) satisfies the invariant -/
theorem inv_init : Inv ({} : Host) := by
  refine ⟨by decide, ?_, ?_, ?_⟩
  · intro i
    cases i with
    | zero => exact ⟨fun k v hf => by simp [Host.get, findKey] at hf, fun v hv => by simp [Host.get] at hv,
        fun j hj => by simp [Host.get] at hj, fun j hj => by simp [Host.get] at hj⟩
    | succ i => rw [get_ge _ _ (by simp [Host.size])]; exact default_bounded _
  · intro i
    refine InhEnds.step i ?_
    have : (({} : Host).get i).inherited = none := by
      cases i with
      | zero => rfl
      | succ i => rw [get_ge _ _ (by simp [Host.size])]
    rw [this]; exact InhEnds.none
  · intro i j hj
    cases i with
    | zero => simp [Host.get] at hj
    | succ i => rw [get_ge _ _ (by simp [Host.size])] at hj; simp at hj

/-- if the inherited links of `h'` agree with those of `h` along the chain, the chain still ends -/
theorem InhEnds.transfer {h h' : Host} {o : Option Nat} (he : InhEnds h o)
    (hsame : ∀ i, (h'.get i).inherited = (h.get i).inherited) : InhEnds h' o := by
  induction he with
  | none => exact InhEnds.none
  | step i _ ih => exact InhEnds.step i (by rw [hsame i]; exact ih)

/-! ## lookups return valid ids -/

theorem lookupLog_bounded (h : Host) (hb : ∀ i, (h.get i).Bounded h.size) :
    ∀ (f : Nat) (o : Option Nat) (t : List B) (v : Nat), lookupLog h f o t = some (some v) → v < h.size := by
  intro f
  induction f with
  | zero => intro o t v hl; simp [lookupLog] at hl
  | succ f ih =>
    intro o t v hl
    cases o with
    | none => simp [lookupLog] at hl
    | some i =>
      rw [lookupLog] at hl
      split at hl
      · next r hf =>
        have : r = some v := by simpa using hl
        subst this
        exact (hb i).1 t v hf
      · exact ih _ t v hl

theorem lookupInh_bounded (h : Host) (hb : ∀ i, (h.get i).Bounded h.size) :
    ∀ (f : Nat) (o : Option Nat) (t : List B) (v : Nat), lookupInh h f o t = some (some v) → v < h.size := by
  intro f
  induction f with
  | zero => intro o t v hl; simp [lookupInh] at hl
  | succ f ih =>
    intro o t v hl
    cases o with
    | none => simp [lookupInh] at hl
    | some i =>
      rw [lookupInh] at hl
      split at hl
      · next r hf =>
        have : r = some v := by simpa using hl
        subst this
        exact (hb i).1 t v hf
      · exact ih _ t v hl

theorem getD_lookupLog_bounded (h : Host) (hb : ∀ i, (h.get i).Bounded h.size) (f : Nat) (o : Option Nat)
    (t : List B) (v : Nat) (hv : (lookupLog h f o t).getD none = some v) : v < h.size := by
  cases hl : lookupLog h f o t with
  | none => rw [hl] at hv; simp at hv
  | some r =>
    rw [hl] at hv
    simp only [Option.getD_some] at hv
    subst hv
    exact lookupLog_bounded h hb f o t v hl

/-! ## the cycle test is sound: a refused-free rebinding keeps every chain finite -/

/-- if the walk from `o` (in `h`) does not meet `r`, then in any table `h'` whose links agree with `h`
    except at `r`, the chain from `o` ends -/
theorem onInhChain_false_ends (h h' : Host) (r : Nat)
    (hsame : ∀ i, i ≠ r → (h'.get i).inherited = (h.get i).inherited) :
    ∀ (f : Nat) (o : Option Nat), onInhChain h f o r = false → InhEnds h' o := by
  intro f
  induction f with
  | zero => intro o ho; simp [onInhChain] at ho
  | succ f ih =>
    intro o ho
    cases o with
    | none => exact InhEnds.none
    | some i =>
      rw [onInhChain] at ho
      split at ho
      · simp at ho
      · next hne =>
        refine InhEnds.step i ?_
        rw [hsame i hne]
        exact ih _ ho


/-! ## operations preserve the invariant -/

theorem inv_setValue (h : Host) (i : Nat) (v : CVal) (hi : Inv h) : Inv (h.setValue i v) := by
  have hget : ∀ j, ((h.setValue i v).get j).inherited = (h.get j).inherited ∧
      ((h.setValue i v).get j).logical = (h.get j).logical ∧ ((h.setValue i v).get j).map = (h.get j).map ∧
      ((h.setValue i v).get j).vec = (h.get j).vec := by
    intro j
    unfold Host.setValue
    rw [get_set]
    split
    · next hc => rw [hc.1]; exact ⟨rfl, rfl, rfl, rfl⟩
    · exact ⟨rfl, rfl, rfl, rfl⟩
  have hsize : (h.setValue i v).size = h.size := by unfold Host.setValue; exact size_set _ _ _
  refine ⟨by rw [hsize]; exact hi.pos, ?_, ?_, ?_⟩
  · intro j
    rw [hsize]
    obtain ⟨h1, h2, h3, h4⟩ := hget j
    have hb := hi.bounded j
    exact ⟨fun k w hf => hb.1 k w (by rw [← h3]; exact hf), fun w hw => hb.2.1 w (by rw [← h4]; exact hw),
      fun w hw => hb.2.2.1 w (by rw [← h1]; exact hw), fun w hw => hb.2.2.2 w (by rw [← h2]; exact hw)⟩
  · intro j
    exact (hi.acyclic j).transfer (fun k => (hget k).1)
  · intro j k hk
    rw [(hget j).2.1] at hk
    exact hi.logDown j k hk

theorem get_setValue (h : Host) (i j : Nat) (v : CVal) :
    (h.setValue i v).get j = if j = i ∧ i < h.size then { h.get i with value := v } else h.get j := by
  unfold Host.setValue; exact get_set _ _ _ _

theorem map_setValue (h : Host) (i j : Nat) (v : CVal) : ((h.setValue i v).get j).map = (h.get j).map := by
  rw [get_setValue]; split
  · next hc => rw [hc.1]
  · rfl

theorem inherited_setValue (h : Host) (i j : Nat) (v : CVal) : ((h.setValue i v).get j).inherited = (h.get j).inherited := by
  rw [get_setValue]; split
  · next hc => rw [hc.1]
  · rfl

theorem value_setValue_self (h : Host) (i : Nat) (v : CVal) (hi : i < h.size) : ((h.setValue i v).get i).value = v := by
  rw [get_setValue]; simp [hi]

/-- replacing a container by one with the same parent links and bounded ids keeps the invariant -/
theorem inv_set_same_links (h : Host) (i : Nat) (c : Cont) (hi : Inv h)
    (hinh : c.inherited = (h.get i).inherited) (hlog : c.logical = (h.get i).logical)
    (hb : c.Bounded h.size) : Inv (h.set i c) := by
  have hsize := size_set h i c
  refine ⟨by rw [hsize]; exact hi.pos, ?_, ?_, ?_⟩
  · intro j
    rw [hsize, get_set]
    split
    · exact hb
    · exact hi.bounded j
  · intro j
    refine (hi.acyclic j).transfer ?_
    intro k
    rw [get_set]
    split
    · next hc => rw [hc.1]; exact hinh
    · rfl
  · intro j k hk
    rw [get_set] at hk
    split at hk
    · next hc => rw [hlog, ← hc.1] at hk; exact hi.logDown j k hk
    · exact hi.logDown j k hk

theorem inv_deleteEntry (h : Host) (idx : Nat) (t : List B) (hi : Inv h) : Inv (deleteEntry h idx t) := by
  unfold deleteEntry
  exact inv_set_same_links h idx _ hi rfl rfl (pushBack_bounded _ _ _ _ (hi.bounded idx) (by intro v hv; cases hv))

/-- re-binding the base of `r` to `nav` when the walk from `nav` does not meet `r` -/
theorem inv_rebind (h : Host) (r : Nat) (nav : Option Nat) (f : Nat) (hi : Inv h)
    (hnav : ∀ v, nav = some v → v < h.size) (hchk : onInhChain h f nav r = false) :
    Inv (h.set r { h.get r with inherited := nav }) := by
  have hsize := size_set h r { h.get r with inherited := nav }
  have hsame : ∀ i, i ≠ r → ((h.set r { h.get r with inherited := nav }).get i).inherited = (h.get i).inherited := by
    intro i hne
    rw [get_set]
    simp [hne]
  refine ⟨by rw [hsize]; exact hi.pos, ?_, ?_, ?_⟩
  · intro j
    rw [hsize, get_set]
    split
    · have hb := hi.bounded r
      exact ⟨hb.1, hb.2.1, fun w hw => hnav w hw, hb.2.2.2⟩
    · exact hi.bounded j
  · have hends : InhEnds (h.set r { h.get r with inherited := nav }) nav :=
      onInhChain_false_ends h _ r hsame f nav hchk
    have key : ∀ o, InhEnds h o → InhEnds (h.set r { h.get r with inherited := nav }) o := by
      intro o ho
      induction ho with
      | none => exact InhEnds.none
      | step i _ ih =>
        refine InhEnds.step i ?_
        by_cases hir : i = r
        · by_cases hlt : r < h.size
          · rw [get_set]; simp only [hir, hlt, and_self, if_true]; exact hends
          · rw [get_set]; simp only [hir, hlt, and_false, if_false]
            rw [hir] at ih
            have : (h.get r).inherited = none := by rw [get_ge h r (by omega)]
            rw [this]; exact InhEnds.none
        · rw [hsame i hir]; exact ih
    intro j
    exact key _ (hi.acyclic j)
  · intro j k hk
    rw [get_set] at hk
    split at hk
    · next hc => rw [hc.1]; exact hi.logDown r k hk
    · exact hi.logDown j k hk

/-- appending a fresh container whose base is an existing container (or none) -/
theorem inv_create (h : Host) (idx : Nat) (target : List B) (base : Option Nat) (hi : Inv h) (hidx : idx < h.size)
    (hbase : ∀ v, base = some v → v < h.size) :
    Inv (createIn h idx target base) := by
  unfold createIn
  let created : Cont := { name := target, logical := some idx, inherited := base }
  let h1 : Host := { conts := h.conts ++ [created] }
  show Inv (h1.set idx ((h1.get idx).pushBack target (some h.size)))
  have hs1 : h1.size = h.size + 1 := size_append h created
  have hget1 : ∀ i, i < h.size → h1.get i = h.get i := fun i hlt => get_append_lt h created i hlt
  have hgetn : h1.get h.size = created := get_append_eq h created
  have hsize : (h1.set idx ((h1.get idx).pushBack target (some h.size))).size = h.size + 1 := by
    rw [size_set]; exact hs1
  -- every container of the new table, by cases on its index
  have hget : ∀ i, ((h1.set idx ((h1.get idx).pushBack target (some h.size))).get i).inherited =
        (if i = h.size then base else (h.get i).inherited) ∧
      ((h1.set idx ((h1.get idx).pushBack target (some h.size))).get i).logical =
        (if i = h.size then some idx else (h.get i).logical) := by
    intro i
    rw [get_set]
    by_cases hii : i = idx
    · subst hii
      have : i < h1.size := by omega
      simp only [this, and_self, if_true]
      have hne : i ≠ h.size := by omega
      simp only [hne, if_false]
      rw [hget1 i hidx]
      exact ⟨rfl, rfl⟩
    · simp only [hii, false_and, if_false]
      by_cases hin : i = h.size
      · subst hin; rw [hgetn]; simp only [if_true]; exact ⟨rfl, rfl⟩
      · simp only [hin, if_false]
        by_cases hlt : i < h.size
        · rw [hget1 i hlt]; exact ⟨rfl, rfl⟩
        · rw [get_ge h1 i (by omega), get_ge h i (by omega)]; exact ⟨rfl, rfl⟩
  refine ⟨by rw [hsize]; omega, ?_, ?_, ?_⟩
  · intro i
    rw [hsize, get_set]
    split
    · have hnew : ∀ v, some h.size = some v → v < h.size + 1 := by
        intro v hv
        have : h.size = v := by simpa using hv
        omega
      refine pushBack_bounded _ _ _ _ ?_ hnew
      rw [hget1 idx hidx]
      exact (hi.bounded idx).mono (by omega)
    · by_cases hin : i = h.size
      · subst hin
        rw [hgetn]
        refine ⟨fun k v hf => ?_, fun v hv => ?_, fun j hj => ?_, fun j hj => ?_⟩
        · have hf' : findKey ([] : List (List B × Option Nat)) k = some (some v) := hf
          simp [findKey] at hf'
        · have hv' : v ∈ ([] : List Nat) := hv
          cases hv'
        · have := hbase j hj; omega
        · have hj' : some idx = some j := hj
          have : idx = j := by simpa using hj'
          omega
      · by_cases hlt : i < h.size
        · rw [hget1 i hlt]; exact (hi.bounded i).mono (by omega)
        · rw [get_ge h1 i (by omega)]; exact default_bounded _
  · -- old chains are unchanged and never reach the new id; the new container hangs on an old chain
    have old : ∀ o, InhEnds h o → (∀ v, o = some v → v < h.size) →
        InhEnds (h1.set idx ((h1.get idx).pushBack target (some h.size))) o := by
      intro o ho
      induction ho with
      | none => intro _; exact InhEnds.none
      | step i _ ih =>
        intro hlt
        have hi' : i < h.size := hlt i rfl
        refine InhEnds.step i ?_
        rw [(hget i).1]
        have hne : i ≠ h.size := by omega
        simp only [hne, if_false]
        exact ih (fun v hv => (hi.bounded i).2.2.1 v hv)
    intro i
    by_cases hin : i = h.size
    · subst hin
      refine InhEnds.step _ ?_
      rw [(hget h.size).1]
      simp only [if_true]
      cases hb : base with
      | none => exact InhEnds.none
      | some b => exact old (some b) (hi.acyclic b) (fun v hv => by have := hbase b hb; simp at hv; omega)
    · by_cases hlt : i < h.size
      · exact old (some i) (hi.acyclic i) (fun v hv => by simp at hv; omega)
      · refine InhEnds.step i ?_
        rw [(hget i).1]
        simp only [hin, if_false]
        rw [get_ge h i (by omega)]
        exact InhEnds.none
  · intro i j hj
    rw [(hget i).2] at hj
    split at hj
    · next hin => simp at hj; omega
    · exact hi.logDown i j hj

theorem size_createIn (h : Host) (idx : Nat) (target : List B) (base : Option Nat) :
    (createIn h idx target base).size = h.size + 1 := by
  unfold createIn; rw [size_set, size_append]

theorem size_setValue (h : Host) (i : Nat) (v : CVal) : (h.setValue i v).size = h.size := by
  unfold Host.setValue; exact size_set _ _ _

theorem baseOf_bounded (h : Host) (hi : Inv h) (idx : Nat) (inh : List B) (v : Nat) (hv : baseOf h idx inh = some v) :
    v < h.size := getD_lookupLog_bounded h hi.bounded _ _ _ v hv

/-- `append_or_replace` keeps the invariant, returns a valid id and never shrinks the table -/
theorem inv_appendOrReplace (h : Host) (idx : Nat) (target inh : List B) (hi : Inv h) (hidx : idx < h.size) :
    Inv (appendOrReplace h idx target inh).1 ∧ (appendOrReplace h idx target inh).2 < (appendOrReplace h idx target inh).1.size ∧
      h.size ≤ (appendOrReplace h idx target inh).1.size := by
  unfold appendOrReplace
  split
  · next existing hf =>
    have hex : existing < h.size := (hi.bounded idx).1 target existing hf
    split
    · exact ⟨hi, hex, Nat.le_refl _⟩
    · split
      · exact ⟨hi, hex, Nat.le_refl _⟩
      · next hchk =>
        refine ⟨inv_rebind h existing _ h.fuel hi (baseOf_bounded h hi idx inh) (by simpa using hchk), ?_, ?_⟩
        · show existing < (h.set existing _).size
          rw [size_set]; exact hex
        · show h.size ≤ (h.set existing _).size
          rw [size_set]; exact Nat.le_refl _
  · refine ⟨inv_create h idx target _ hi hidx ?_, ?_, ?_⟩
    · intro v hv
      split at hv
      · cases hv
      · exact baseOf_bounded h hi idx inh v hv
    · show h.size < (createIn h idx target _).size
      rw [size_createIn]; omega
    · show h.size ≤ (createIn h idx target _).size
      rw [size_createIn]; omega

theorem inv_applyField (h : Host) (parent : Nat) (n : List B) (v : Lit) (hi : Inv h) (hp : parent < h.size) :
    Inv (applyField h parent n v) ∧ h.size ≤ (applyField h parent n v).size := by
  unfold applyField
  have := inv_appendOrReplace h parent n [] hi hp
  exact ⟨inv_setValue _ _ _ this.1, by rw [size_setValue]; exact this.2.2⟩

theorem inv_applyAppend (h : Host) (parent : Nat) (n : List B) (v : Lit) (hi : Inv h) (hp : parent < h.size) :
    Inv (applyAppend h parent n v) ∧ h.size ≤ (applyAppend h parent n v).size := by
  unfold applyAppend
  have h0 := inv_appendOrReplace h parent n [] hi hp
  have h2 := inv_setValue _ (appendOrReplace h parent n []).2 (evalLit v) h0.1
  have hs2 : h.size ≤ ((appendOrReplace h parent n []).1.setValue (appendOrReplace h parent n []).2 (evalLit v)).size := by
    rw [size_setValue]; exact h0.2.2
  simp only []
  split
  · split
    · exact ⟨inv_setValue _ _ _ h2, by rw [size_setValue]; exact hs2⟩
    · exact ⟨h2, hs2⟩
  · exact ⟨h2, hs2⟩

/-- `apply_to_confighost` keeps the invariant, for every node and every list of nodes -/
theorem inv_apply :
    (∀ (h : Host) (diags : List Nat) (parent : Nat) (x : Node), Inv h → parent < h.size →
      Inv (applyNode h diags parent x).1 ∧ h.size ≤ (applyNode h diags parent x).1.size) ∧
    (∀ (h : Host) (diags : List Nat) (parent : Nat) (xs : List Node), Inv h → parent < h.size →
      Inv (applyNodes h diags parent xs).1 ∧ h.size ≤ (applyNodes h diags parent xs).1.size) := by
  apply applyNode.mutual_induct
    (motive_1 := fun h diags parent x => Inv h → parent < h.size →
      Inv (applyNode h diags parent x).1 ∧ h.size ≤ (applyNode h diags parent x).1.size)
    (motive_2 := fun h diags parent xs => Inv h → parent < h.size →
      Inv (applyNodes h diags parent xs).1 ∧ h.size ≤ (applyNodes h diags parent xs).1.size)
  · intro h diags parent n hi hp
    rw [applyNode]
    have := inv_appendOrReplace h parent n [] hi hp
    exact ⟨this.1, this.2.2⟩
  · intro h diags parent n base hi hp
    rw [applyNode]
    have := inv_appendOrReplace h parent n base hi hp
    exact ⟨this.1, this.2.2⟩
  · intro h diags parent n body ih hi hp
    rw [applyNode]
    have h0 := inv_appendOrReplace h parent n [] hi hp
    have := ih h0.1 h0.2.1
    exact ⟨this.1, Nat.le_trans h0.2.2 this.2⟩
  · intro h diags parent n base body ih hi hp
    rw [applyNode]
    have h0 := inv_appendOrReplace h parent n base hi hp
    have := ih h0.1 h0.2.1
    exact ⟨this.1, Nat.le_trans h0.2.2 this.2⟩
  · intro h diags parent n hi hp
    rw [applyNode]
    exact ⟨inv_deleteEntry h parent n hi, by unfold deleteEntry; rw [size_set]; exact Nat.le_refl _⟩
  · intro h diags parent n v hi hp
    rw [applyNode]
    exact inv_applyField h parent n v hi hp
  · intro h diags parent n v hi hp
    rw [applyNode]
    exact inv_applyField h parent n v hi hp
  · intro h diags parent n v hi hp
    rw [applyNode]
    exact inv_applyAppend h parent n v hi hp
  · intro h diags parent hi hp
    rw [applyNodes]
    exact ⟨hi, Nat.le_refl _⟩
  · intro h diags parent x xs ih1 ih2 hi hp
    rw [applyNodes]
    have h1 := ih1 hi hp
    have h2 := ih2 h1.1 (Nat.lt_of_lt_of_le hp h1.2)
    exact ⟨h2.1, Nat.le_trans h1.2 h2.2⟩

theorem inv_load (h : Host) (ast : List Node) (hi : Inv h) : Inv (load h ast).1 := by
  unfold load
  exact (inv_apply.2 h [] 0 ast hi hi.pos).1

end Sqf.Cfg
