import SqfModel.Lemmas.PrettyWP
import SqfModel.Compile
/-!
# The printer's normal form compiles to the same instructions

`norm` (operator names in lower case, `$ff` spelled `0xff`) changes nothing the compiler looks at: operator names are
lower-cased by `to_assembly` anyway, signs are recognised in either spelling, both hexadecimal spellings denote the same
number.
-/
namespace Sqf.Pretty
open Sqf

/-- a one-character name that is no letter is its own lower-case form only -/
theorem lower_eq_single (c : Nat) (hc : ¬ (97 ≤ c ∧ c ≤ 122)) (hu : ¬ (65 ≤ c ∧ c ≤ 90)) (n : Name) :
    (lower n == [c]) = (n == [c]) := by
  match n with
  | [] => rfl
  | [x] =>
    simp only [lower, List.map]
    by_cases hx : x = c
    · subst hx
      have : toLower x = x := by
        unfold toLower; split
        · next h => simp [isUpperAlpha] at h; omega
        · rfl
      rw [this]
    · have h1 : ([x] == [c]) = false := by simp [hx]
      rw [h1]
      have : toLower x ≠ c := by
        unfold toLower; split
        · next h => simp [isUpperAlpha] at h; omega
        · exact hx
      simp [this]
  | _ :: _ :: _ => simp [lower]

theorem lower_eq_minus (n : Name) : (lower n == [45]) = (n == [45]) := lower_eq_single 45 (by omega) (by omega) n
theorem lower_eq_plus (n : Name) : (lower n == [43]) = (n == [43]) := lower_eq_single 43 (by omega) (by omega) n

theorem isSign_lower (n : Name) : isSign (lower n) = isSign n := by
  simp only [isSign, lower_eq_minus, lower_eq_plus]

theorem valOfHexText_spelling (t : Name) : valOfHexText (hexSpelling t) = valOfHexText t := by
  cases t with
  | nil => rfl
  | cons c r =>
    by_cases hc : c = 36
    · subst hc; simp [hexSpelling, valOfHexText]
    · have h : hexSpelling (c :: r) = c :: r := by
        unfold hexSpelling
        split
        · next h => simp at h; exact absurd h.1 hc
        · rfl
      rw [h]

mutual
theorem compile_norm : ∀ a : Ast, compile (norm a) = compile a
  | .leaf l => by cases l <;> simp [norm, compile, valOfHexText_spelling]
  | .unary n (.leaf (.num t)) => by
    simp only [norm, compile, lower_eq_minus, lower_eq_plus, lower_idem]
  | .unary n (.leaf (.hex t)) => by
    simp only [norm, compile, lower_eq_minus, lower_eq_plus, lower_idem, valOfHexText_spelling]
  | .unary n (.unary m a) => by
    have ih := compile_norm (.unary m a)
    simp only [norm] at ih ⊢
    rw [compile, ih]
    conv => rhs; rw [compile]
    simp only [isSign_lower, lower_eq_minus, lower_idem]
  | .unary n (.leaf (.str t)) => by simp [norm, compile, lower_idem]
  | .unary n (.leaf .tru) => by simp [norm, compile, lower_idem]
  | .unary n (.leaf .fls) => by simp [norm, compile, lower_idem]
  | .unary n (.leaf (.ident t)) => by simp [norm, compile, lower_idem]
  | .unary n (.leaf (.nular t)) => by simp [norm, compile, lower_idem]
  | .unary n (.binary l m x y) => by
    have ih := compile_norm (.binary l m x y)
    simp only [norm] at ih ⊢
    simp only [compile, lower_idem] at ih ⊢
    rw [ih]
  | .unary n (.array es) => by
    have ih := compile_norm (.array es)
    simp only [norm] at ih ⊢
    simp only [compile, lower_idem] at ih ⊢
    rw [ih]
  | .unary n (.code ss) => by
    have ih := compile_norm (.code ss)
    simp only [norm] at ih ⊢
    simp only [compile, lower_idem] at ih ⊢
    rw [ih]
  | .unary n (.assign lhs e) => by
    have ih := compile_norm (.assign lhs e)
    simp only [norm] at ih ⊢
    rw [compile, ih, compile]
    all_goals simp [lower_idem]
  | .unary n (.assignLocal m e) => by
    have ih := compile_norm (.assignLocal m e)
    simp only [norm] at ih ⊢
    rw [compile, ih, compile]
    all_goals simp [lower_idem]
  | .binary l n x y => by simp [norm, compile, lower_idem, compile_norm x, compile_norm y]
  | .array es => by
    have hl : (normList es).length = es.length := by
      induction es with
      | nil => rfl
      | cons a as ih => simp [normList, ih]
    simp [norm, compile, compileList_norm es, hl]
  | .code ss => by simp [norm, compile, compileStmts_norm ss]
  | .assign lhs e => by
    have he := compile_norm e
    cases lhs with
    | leaf l => cases l <;> simp [norm, compile, he]
    | _ => simp [norm, compile, he]
  | .assignLocal n e => by simp [norm, compile, compile_norm e]
theorem compileList_norm : ∀ es : List Ast, compileList (normList es) = compileList es
  | [] => by simp [normList, compileList]
  | a :: as => by simp [normList, compileList, compile_norm a, compileList_norm as]
theorem compileStmts_norm : ∀ ss : List Ast, compileStmts (normList ss) = compileStmts ss
  | [] => by simp [normList, compileStmts]
  | [s] => by simp [normList, compileStmts, compile_norm s]
  | s :: t :: r => by
    have ih := compileStmts_norm (t :: r)
    simp only [normList] at ih ⊢
    simp only [compileStmts, compile_norm s, ih]
end

end Sqf.Pretty
