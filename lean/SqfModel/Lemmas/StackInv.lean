import SqfModel.VM.Run
/-!
# The region discipline of the value stack (lemmas for C05)

`Inv`: frame bases are monotone along the frame stack and never exceed the stack height.  Every
function of the stack API, every effect an operator can return, every behaviour, every instruction
and therefore every step of the VM preserves it.
-/
set_option linter.unusedSimpArgs false
namespace Sqf.VM
open Sqf

/-- bases are monotone along the frame stack (top first) and bounded by the stack height -/
def Ctx.Inv (c : Ctx) : Prop :=
  (∀ f ∈ c.frames, f.base ≤ c.vals.length) ∧ c.frames.Pairwise (fun hi lo => lo.base ≤ hi.base)

namespace Ctx

theorem inv_pushV {c : Ctx} (v : Val) (h : c.Inv) : (c.pushV v).Inv := by
  refine ⟨fun f hf => ?_, h.2⟩
  have := h.1 f hf
  simp [pushV]; omega

theorem popV_spec {c c' : Ctx} {v : Val} (h : c.popV = some (v, c')) :
    c'.frames = c.frames ∧ c'.vals = c.vals.dropLast ∧ c.base < c.vals.length ∧ c.frames ≠ [] := by
  unfold popV at h
  cases hf : c.frames with
  | nil => simp [hf] at h
  | cons f r =>
    simp only [hf] at h
    split at h
    · simp at h
    · next hlt =>
      cases hl : c.vals.getLast? with
      | none => simp [hl] at h
      | some w =>
        simp only [hl, Option.some.injEq, Prod.mk.injEq] at h
        obtain ⟨_, rfl⟩ := h
        refine ⟨by simp [hf], rfl, ?_, by simp⟩
        simp [base, hf]; omega

theorem inv_popV {c c' : Ctx} {v : Val} (hp : c.popV = some (v, c')) (h : c.Inv) : c'.Inv := by
  obtain ⟨hfr, hv, hlt, hne⟩ := popV_spec hp
  refine ⟨fun f hf => ?_, by rw [hfr]; exact h.2⟩
  rw [hfr] at hf
  rw [hv, List.length_dropLast]
  cases hfs : c.frames with
  | nil => exact absurd hfs hne
  | cons t r =>
    have hb : f.base ≤ t.base := by
      rw [hfs] at hf
      cases hf with
      | head => exact Nat.le_refl _
      | tail _ hm =>
        have := h.2; rw [hfs, List.pairwise_cons] at this; exact this.1 f hm
    simp [base, hfs] at hlt
    omega

theorem inv_clearV {c : Ctx} (h : c.Inv) : c.clearV.Inv := by
  unfold clearV
  cases hfs : c.frames with
  | nil => simpa [hfs] using h
  | cons t r =>
    simp only
    refine ⟨fun f hf => ?_, by simpa [hfs] using h.2⟩
    simp only [hfs] at hf
    have htb : t.base ≤ c.vals.length := h.1 t (by simp [hfs])
    have hb : f.base ≤ t.base := by
      cases hf with
      | head => exact Nat.le_refl _
      | tail _ hm =>
        have := h.2; rw [hfs, List.pairwise_cons] at this; exact this.1 f hm
    simp [List.length_take, Nat.min_eq_left htb]; omega

theorem inv_pushF {c : Ctx} (f : Frame) (h : c.Inv) : (c.pushF f).Inv := by
  unfold pushF
  refine ⟨fun g hg => ?_, ?_⟩
  · simp only [List.mem_cons] at hg
    rcases hg with rfl | hg
    · simp
    · exact h.1 g hg
  · simp only [List.pairwise_cons]
    exact ⟨fun g hg => h.1 g hg, h.2⟩

theorem inv_popF {c : Ctx} (h : c.Inv) : c.popF.Inv := by
  unfold popF
  refine ⟨fun f hf => h.1 f (List.mem_of_mem_tail hf), ?_⟩
  cases hfs : c.frames with
  | nil => simp
  | cons t r => have := h.2; rw [hfs, List.pairwise_cons] at this; simpa using this.2

theorem inv_dropFrames {c : Ctx} (k : Nat) (h : c.Inv) : (c.dropFrames k).Inv := by
  unfold dropFrames
  exact ⟨fun f hf => h.1 f (List.mem_of_mem_drop hf), h.2.sublist (List.drop_sublist k _)⟩

/-- replacing the current frame by one with the same base -/
theorem inv_setTop {c : Ctx} (f : Frame) (hb : ∀ t r, c.frames = t :: r → f.base = t.base) (h : c.Inv) :
    (c.setTop f).Inv := by
  unfold setTop
  cases hfs : c.frames with
  | nil => simpa [hfs] using h
  | cons t r =>
    have e := hb t r hfs
    simp only
    have hp := h.2; rw [hfs, List.pairwise_cons] at hp
    refine ⟨fun g hg => ?_, ?_⟩
    · simp only [List.mem_cons] at hg
      rcases hg with rfl | hg
      · rw [e]; exact h.1 t (by simp [hfs])
      · exact h.1 g (by simp [hfs, hg])
    · simp only [List.pairwise_cons]
      exact ⟨fun g hg => by rw [e]; exact hp.1 g hg, hp.2⟩

theorem inv_complete {c : Ctx} (h : c.Inv) : c.complete.Inv := by
  unfold complete
  cases hfs : c.frames with
  | nil => simpa [hfs] using h
  | cons t r =>
    simp only
    have hp := h.2; rw [hfs, List.pairwise_cons] at hp
    have htb : t.base ≤ c.vals.length := h.1 t (by simp [hfs])
    refine ⟨fun g hg => ?_, hp.2⟩
    have hgb : g.base ≤ t.base := hp.1 g hg
    split <;> (try split) <;> simp [List.length_take, Nat.min_eq_left htb] <;> omega

theorem inv_popClear {c : Ctx} (h : c.Inv) : (popClear c).Inv := inv_popF (inv_clearV h)

theorem inv_popClearN {c : Ctx} (k : Nat) (h : c.Inv) : (popClearN k c).Inv := by
  induction k generalizing c with
  | zero => exact h
  | succ k ih => exact ih (inv_popClear h)

theorem withBases_bases : ∀ (olds news : List Frame), (withBases olds news).map (·.base) = olds.map (·.base)
  | [], [] => rfl
  | [], _ :: _ => rfl
  | _ :: _, [] => rfl
  | o :: os, n :: ns => by simp [withBases, withBases_bases os ns]

/-- Inv only depends on the list of bases and the stack height -/
theorem inv_of_bases {c c' : Ctx} (hb : c'.frames.map (·.base) = c.frames.map (·.base))
    (hv : c'.vals.length = c.vals.length) (h : c.Inv) : c'.Inv := by
  have h1 : ∀ b ∈ c.frames.map (·.base), b ≤ c.vals.length := by
    intro b hb'; obtain ⟨f, hf, rfl⟩ := List.mem_map.mp hb'; exact h.1 f hf
  have h2 : (c.frames.map (·.base)).Pairwise (fun hi lo => lo ≤ hi) := by
    simpa [List.pairwise_map] using h.2
  refine ⟨fun f hf => ?_, ?_⟩
  · rw [hv]; exact h1 f.base (by rw [← hb]; exact List.mem_map_of_mem hf)
  · have : (c'.frames.map (·.base)).Pairwise (fun hi lo => lo ≤ hi) := by rw [hb]; exact h2
    simpa [List.pairwise_map] using this

theorem set_same_base (fs : List Frame) (idx : Nat) (old new : Frame) (h : fs[idx]? = some old)
    (hb : new.base = old.base) : (fs.set idx new).map (·.base) = fs.map (·.base) := by
  induction fs generalizing idx with
  | nil => simp
  | cons t r ih =>
    cases idx with
    | zero => simp at h; subst h; simp [hb]
    | succ i => simp at h; simp [ih i h]

theorem inv_setFrameAt {c : Ctx} (idx : Nat) (f : Frame) (h : c.Inv) : (c.setFrameAt idx f).Inv := by
  unfold setFrameAt
  split
  · next old hold =>
    exact inv_of_bases (c := c) (set_same_base c.frames idx old _ hold rfl) rfl h
  · exact h

end Ctx

/-! ### error unwinding, effects -/

theorem inv_popV_fst {c : Ctx} (h : c.Inv) :
    (match c.popV with | some (v, c') => (some v, c') | none => (none, c)).2.Inv := by
  cases hp : c.popV with
  | none => simpa using h
  | some p => obtain ⟨v, c'⟩ := p; simpa using Ctx.inv_popV hp h

theorem inv_recoverAt {c : Ctx} (e : Bool) (idx : Nat) (h : c.Inv) : (recoverAt c e idx).1.Inv := by
  unfold recoverAt
  split
  · exact h
  · split
    · exact h
    · split
      · exact h
      · simp only
        exact Ctx.inv_setFrameAt _ _ (Ctx.inv_clearV (inv_popV_fst h))
    · split
      · exact h
      · simp only
        exact Ctx.inv_setFrameAt _ _ (Ctx.inv_clearV (inv_popV_fst h))
    · exact h

theorem inv_throwCtx {c : Ctx} (e : Bool) (idx : Nat) (v : Val) (h : c.Inv) : (throwCtx c e idx v).1.Inv := by
  unfold throwCtx
  have h1 : (c.pushV (.strace v)).Inv := Ctx.inv_pushV _ h
  have h2 := inv_recoverAt e idx h1
  simp only
  split
  · next c2 heq =>
    rw [heq] at h2
    simp only
    split
    · cases hp : c2.popV with
      | none => simpa using h2
      | some p => obtain ⟨w, c3⟩ := p; simpa using Ctx.inv_popV hp h2
    · exact h2
  · next c2 _ heq =>
    rw [heq] at h2
    exact Ctx.inv_dropFrames _ h2

/-- machine-level invariant -/
def M.Inv (m : M) : Prop := m.ctx.Inv

@[simp] theorem log_ctx (m : M) (code : Nat) : (m.log code).ctx = m.ctx := by
  unfold M.log; simp only; split <;> rfl

theorem inv_log {m : M} (code : Nat) (h : m.Inv) : (m.log code).Inv := by
  unfold M.Inv; rw [log_ctx]; exact h

theorem inv_applyEff (e : Eff) {m : M} (h : m.Inv) : (applyEff e m).Inv := by
  unfold M.Inv at *
  cases e with
  | pushFrame f => exact Ctx.inv_pushF f h
  | setTop f =>
    simp only [applyEff]
    split
    · next old r heq =>
      exact Ctx.inv_setTop _ (by intro t r' e; rw [heq] at e; cases e; rfl) h
    · exact h
  | setFrames fs =>
    exact Ctx.inv_of_bases (c := m.ctx) (by simpa [applyEff] using Ctx.withBases_bases m.ctx.frames fs) rfl h
  | popClear => exact Ctx.inv_popClear h
  | popClearN k => exact Ctx.inv_popClearN k h
  | throwTo idx v =>
    simp only [applyEff]
    have := inv_throwCtx m.err idx v h
    split
    · next c heq => rw [heq] at this; exact this
    · next c heq => rw [heq] at this; rw [log_ctx]; exact this
  | suspend ms => exact h
  | terminateSelf => exact h

theorem inv_applyEffs (es : List Eff) {m : M} (h : m.Inv) : (applyEffs es m).Inv := by
  induction es generalizing m with
  | nil => exact h
  | cons e es ih => exact ih (inv_applyEff e h)

/-- an operator, whatever it computes, leaves the invariant intact -/
theorem inv_finishOp {m0 : M} (res : OpRes) (h : m0.Inv) : (finishOp m0 res).Inv := by
  obtain ⟨m', effs, v⟩ := res
  unfold finishOp
  simp only
  have h1 : M.Inv { m' with ctx := m0.ctx } := h
  exact Ctx.inv_pushV v (inv_applyEffs effs h1)

/-! ### the machine-level wrappers used by behaviours and instructions -/

theorem inv_mpushV {m : M} (v : Val) (h : m.Inv) : (m.pushV v).Inv := Ctx.inv_pushV v h
theorem inv_mclearV {m : M} (h : m.Inv) : m.clearV.Inv := Ctx.inv_clearV h

theorem inv_mpopV {m : M} (h : m.Inv) : (m.popV).2.Inv := by
  unfold M.popV
  cases hp : m.ctx.popV with
  | none => simpa using h
  | some p => obtain ⟨v, c'⟩ := p; exact Ctx.inv_popV hp h

theorem inv_msetTop_same {m : M} (f : Frame) (hb : ∀ t r, m.ctx.frames = t :: r → f.base = t.base)
    (h : m.Inv) : (m.setTop f).Inv := Ctx.inv_setTop f hb h

theorem top?_eq {m : M} {f : Frame} (h : m.top? = some f) : ∃ r, m.ctx.frames = f :: r := by
  unfold M.top? Ctx.top? at h
  cases hfs : m.ctx.frames with
  | nil => simp [hfs] at h
  | cons t r => simp [hfs] at h; subst h; exact ⟨r, rfl⟩

/-- updating fields other than `base` of the current frame -/
theorem inv_updTop {m : M} {f : Frame} (ht : m.top? = some f) (g : Frame) (hb : g.base = f.base) (h : m.Inv) :
    (m.setTop g).Inv := by
  obtain ⟨r, hr⟩ := top?_eq ht
  exact inv_msetTop_same g (by intro t r' e; rw [hr] at e; cases e; exact hb) h

theorem inv_setVars {m : M} (vars : List (Name × Val)) (h : m.Inv) : (m.setVars vars).Inv := by
  unfold M.setVars
  split
  · next f hf => exact inv_updTop hf _ rfl h
  · exact h

@[simp] theorem alloc_ctx (m : M) (xs : List Val) : (m.alloc xs).1.ctx = m.ctx := rfl
@[simp] theorem setArr_ctx (m : M) (id : Nat) (xs : List Val) : (m.setArr id xs).ctx = m.ctx := rfl

theorem inv_alloc {m : M} (xs : List Val) (h : m.Inv) : (m.alloc xs).1.Inv := h

/-! ### behaviours -/

theorem inv_runAct (a : TAct) {m : M} (h : m.Inv) : (runAct a m).Inv := by
  cases a with
  | log code => exact inv_log code h
  | pushV v => exact inv_mpushV v h
  | pushNewArr xs => exact inv_mpushV _ (inv_alloc xs h)
  | clearV => exact inv_mclearV h
  | setVars vs => exact inv_setVars vs h
  | touchVar n =>
    simp only [runAct]
    split
    · next f hf => exact inv_updTop hf _ rfl h
    · exact h
  | suspend ms => exact h

theorem inv_runActs (as : List TAct) {m : M} (h : m.Inv) : (runActs as m).Inv := by
  induction as generalizing m with
  | nil => exact h
  | cons a as ih => exact ih (inv_runAct a h)

theorem inv_enact (b : Beh) {m : M} (h : m.Inv) : (enact b m).1.Inv := by
  unfold enact
  simp only
  apply inv_runActs
  split
  · exact inv_mpopV h
  · exact h

/-! ### `frame::next` -/

theorem advance_base (f : Frame) : (advance f).1.base = f.base := by
  unfold advance; split <;> rfl

theorem inv_settle (res : NextRes) (e : M × Beh × BRes × Bool) (h : e.1.Inv) : (settle res e).1.Inv := by
  unfold settle
  split
  · exact h
  · split
    · exact h
    · next f2 hf2 =>
      split
      · exact inv_updTop hf2 _ rfl h
      · exact inv_mclearV (inv_updTop hf2 _ rfl h)
      · exact inv_updTop hf2 _ rfl h
      · exact inv_updTop hf2 _ rfl h
      · exact inv_updTop hf2 _ rfl h

theorem inv_frameNext : ∀ (fuel : Nat) {m : M}, m.Inv → (frameNext fuel m).1.Inv := by
  intro fuel
  induction fuel with
  | zero => intro m h; exact h
  | succ fuel ih =>
    intro m h
    rw [frameNext]
    split
    · exact h
    · next f hf =>
      simp only
      have h1 : (m.setTop (advance f).1).Inv := inv_updTop hf _ (advance_base f) h
      split
      · split
        · exact h1
        · next b hb =>
          have h2 := inv_settle (advance f).2 (enact b (m.setTop (advance f).1)) (inv_enact b h1)
          split
          · next m3 r heq => rw [heq] at h2; exact h2
          · next m3 heq =>
            rw [heq] at h2
            split
            · split
              · exact h2
              · exact ih h2
            · exact ih h2
      · exact h1

/-! ### instructions -/

theorem assignLocal_bases : ∀ (fs : List Frame) (n : Name) (v : Val) (fs' : List Frame),
    assignLocal fs n v = some fs' → fs'.map (·.base) = fs.map (·.base)
  | [], _, _, _, h => by simp [assignLocal] at h
  | f :: fs, n, v, fs', h => by
    unfold assignLocal at h
    split at h
    · simp at h; subst h; simp
    · split at h
      · next fs'' heq =>
        simp at h; subst h
        simp [assignLocal_bases fs n v fs'' heq]
      · simp at h

theorem inv_fill (k : Nat) : ∀ {m : M} (acc : List Val), m.Inv → (execInstr.fill k m acc).1.Inv := by
  induction k with
  | zero => intro m acc h; exact h
  | succ j ih =>
    intro m acc h
    rw [execInstr.fill]
    have hp := inv_mpopV h
    split
    · next v mm' heq => rw [heq] at hp; exact ih _ hp
    · next mm' heq => rw [heq] at hp; exact inv_log _ hp

theorem inv_execInstr (i : Instr) {m : M} (h : m.Inv) : (execInstr i m).Inv := by
  cases i with
  | push v => exact inv_mpushV v h
  | endStatement => exact inv_mclearV h
  | callNular n =>
    simp only [execInstr]
    split
    · exact inv_finishOp _ h
    · exact inv_log _ h
  | callUnary n =>
    simp only [execInstr]
    have hp := inv_mpopV h
    split
    · exact inv_log _ hp
    · exact inv_mpushV _ (inv_log _ hp)
    · split
      · exact inv_finishOp _ hp
      · exact inv_log _ hp
  | callBinary n k =>
    simp only [execInstr]
    have hp := inv_mpopV h
    split
    · exact inv_log _ hp
    · exact inv_mpushV _ (inv_mpopV (inv_log _ hp))
    · have hp2 := inv_mpopV hp
      split
      · exact inv_log _ hp2
      · exact inv_mpushV _ (inv_log _ hp2)
      · split
        · exact inv_finishOp _ hp2
        · exact inv_log _ hp2
  | assignTo n =>
    simp only [execInstr]
    have hp := inv_mpopV h
    split
    · exact inv_log _ hp
    · next val _ =>
      have h2 : (match val with | .nil => (m.popV).2.log Diag.runtime_AssigningNilValue | _ => (m.popV).2).Inv := by
        split
        · exact inv_log _ hp
        · exact hp
      split
      · exact h2
      · split
        · split
          · next fs heq =>
            exact Ctx.inv_of_bases (assignLocal_bases _ _ _ _ heq) rfl h2
          · split
            · next f hf => exact inv_updTop hf _ rfl h2
            · exact h2
        · split
          · exact h2
          · exact h2
  | assignToLocal n =>
    simp only [execInstr]
    have hp := inv_mpopV h
    split
    · exact hp
    · split
      · exact inv_log _ hp
      · next val _ =>
        have h2 : (match val with | .nil => (m.popV).2.log Diag.runtime_AssigningNilValue | _ => (m.popV).2).Inv := by
          split
          · exact inv_log _ hp
          · exact hp
        split
        · next f hf => exact inv_updTop hf _ rfl h2
        · exact h2
  | getVariable n =>
    simp only [execInstr]
    split
    · split
      · exact inv_mpushV _ h
      · exact inv_mpushV _ (inv_log _ h)
    · split
      · exact inv_mpushV _ h
      · exact inv_mpushV _ (inv_log _ h)
  | makeArray k =>
    simp only [execInstr]
    exact inv_mpushV _ (inv_alloc _ (inv_fill k [] h))

/-! ### one step of `execute_do` -/

theorem inv_unwindErr : ∀ (fuel : Nat) (c : Ctx) (tr : Val), c.Inv → (unwindErr fuel c tr).1.Inv := by
  intro fuel
  induction fuel with
  | zero => intro c tr h; exact h
  | succ fuel ih =>
    intro c tr h
    rw [unwindErr]
    split
    · exact h
    · next idx _ =>
      simp only
      have h1 := inv_recoverAt true 0 (Ctx.inv_dropFrames idx (Ctx.inv_pushV tr h))
      split
      · next c2 heq => rw [heq] at h1; exact ih _ _ (Ctx.inv_popClear h1)
      · next c2 _ _ heq => rw [heq] at h1; exact h1

theorem inv_afterInstr {m : M} (h : m.Inv) : (afterInstr m).1.Inv := by
  unfold afterInstr
  split
  · exact h
  · simp only
    have hu := inv_unwindErr (m.ctx.frames.length + 1) m.ctx (.strace (.ref m.heap.length)) h
    unfold finishErr
    split
    · exact hu
    · show Ctx.Inv _
      simp only [log_ctx]
      exact hu

theorem inv_deadline {m : M} (h : m.Inv) :
    (deadline m).2.Inv ∧ ∀ r, (deadline m).1 = some r → r.1.Inv := by
  unfold deadline
  have hc : m.readClock.2.Inv := h
  split
  · split
    · refine ⟨hc, ?_⟩
      intro r hr
      simp only [Option.some.injEq] at hr
      rw [← hr]
      show Ctx.Inv _
      simp only [log_ctx]
      exact hc
    · exact ⟨hc, by intro r hr; cases hr⟩
  · exact ⟨h, by intro r hr; cases hr⟩

theorem inv_yieldStep {m : M} (h : m.Inv) : (yieldStep m).1.Inv := by
  unfold yieldStep
  have hd := inv_deadline h
  split
  · next r m2 heq => rw [heq] at hd; exact hd.2 r rfl
  · next m2 heq => rw [heq] at hd; exact hd.1

theorem inv_fetchExec {m : M} (h : m.Inv) : (fetchExec m).1.Inv := by
  unfold fetchExec
  split
  · exact h
  · split
    · exact h
    · have hd := inv_deadline h
      split
      · next r m2 heq => rw [heq] at hd; exact hd.2 r rfl
      · next m2 heq => rw [heq] at hd; exact inv_afterInstr (inv_execInstr _ hd.1)

theorem inv_step : ∀ (fuel : Nat) {m : M}, m.Inv → (step fuel m).1.Inv := by
  intro fuel
  induction fuel with
  | zero => intro m h; exact h
  | succ fuel ih =>
    intro m h
    rw [step]
    split
    · exact h
    · split
      · exact h
      · split
        · exact h
        · have hn := inv_frameNext (fuel + 1) h
          split
          · next m1 heq => rw [heq] at hn; exact hn
          · next m1 heq => rw [heq] at hn; exact hn
          · next m1 heq =>
            rw [heq] at hn
            simp only at hn
            split
            · have ha := inv_afterInstr hn
              split
              · next m2 heq2 => rw [heq2] at ha; exact ih ha
              · next m2 r2 _ heq2 => rw [heq2] at ha; exact ha
            · exact inv_yieldStep hn
          · next m1 r _ _ _ heq =>
            rw [heq] at hn
            simp only at hn
            split
            · have ha := inv_afterInstr hn
              split
              · next m2 heq2 => rw [heq2] at ha; exact ih ha
              · next m2 r2 _ heq2 => rw [heq2] at ha; exact ha
            · split
              · split
                · exact ih (Ctx.inv_complete hn)
                · exact hn
              · exact inv_fetchExec hn

theorem inv_runSteps : ∀ (n : Nat) {m : M}, m.Inv → (runSteps n m).1.Inv := by
  intro n
  induction n with
  | zero => intro m h; exact h
  | succ n ih =>
    intro m h
    rw [runSteps]
    have hs := inv_step (4 * (m.ctx.frames.length + 4) + 100000) h
    split
    · next m' heq => rw [heq] at hs; exact ih hs
    · next m' r _ heq => rw [heq] at hs; exact hs

theorem inv_load (prog : List Instr) : (load prog).Inv := by
  unfold load M.Inv Ctx.Inv
  simp

end Sqf.VM
