import SqfModel.Lemmas.CfgRound
import SqfModel.Decorated
/-!
# The SQF tokenizer reads back the canonical text of a token sequence (helper lemmas for C01)

`renderPToks ts` writes every parser token followed by one blank.  For tokens of the forms `lexable reg` describes
(punctuation, the keywords, names that the registry classifies as the token says, numbers with an optional fraction,
hexadecimal numbers, quoted strings), tokenizing and classifying the text gives `ts` back, followed by the
end-of-file token.  Together with `C01_parse_render` this lifts parse ∘ print = id from token level to text level.
-/
set_option linter.unusedSimpArgs false
namespace Sqf.LexRound
open Sqf Sqf.CfgText

/-- `next` on any state whose input is `s` yields a token of kind `k` with text `t` and leaves `r` -/
def Steps (s : List B) (k : TK) (t r : List B) : Prop :=
  ∀ l c o f, (next { rest := s, line := l, col := c, off := o, file := f }).1.kind = k ∧
    (next { rest := s, line := l, col := c, off := o, file := f }).1.text = t ∧
    (next { rest := s, line := l, col := c, off := o, file := f }).2.rest = r

theorem next_of_first (s : List B) (c0 : B) (cs : List B) (hs : s = c0 :: cs) (k : TK) (ks : List TK)
    (hc : candidates c0 = some (k :: ks)) (n : Nat) (hn : n ≠ 0)
    (hm : ∀ l c o f, ∃ m, matchKind { rest := s, line := l, col := c, off := o, file := f } k = some m ∧ m.len = n) :
    Steps s k (s.take n) (s.drop n) := by
  intro l c o f
  obtain ⟨m, hm1, hm2⟩ := hm l c o f
  subst hs
  subst hm2
  simp [next, hc, tryMatch, hm1, hn]

/-- the first candidate does not match (`none` or length 0), the second does -/
theorem next_of_second (s : List B) (c0 : B) (cs : List B) (hs : s = c0 :: cs) (k0 k : TK) (ks : List TK)
    (hc : candidates c0 = some (k0 :: k :: ks)) (n : Nat) (hn : n ≠ 0)
    (h0 : ∀ l c o f, matchKind { rest := s, line := l, col := c, off := o, file := f } k0 = none)
    (hm : ∀ l c o f, ∃ m, matchKind { rest := s, line := l, col := c, off := o, file := f } k = some m ∧ m.len = n) :
    Steps s k (s.take n) (s.drop n) := by
  intro l c o f
  obtain ⟨m, hm1, hm2⟩ := hm l c o f
  subst hs
  subst hm2
  simp [next, hc, tryMatch, h0 l c o f, hm1, hn]

theorem next_of_third (s : List B) (c0 : B) (cs : List B) (hs : s = c0 :: cs) (k0 k1 k : TK) (ks : List TK)
    (hc : candidates c0 = some (k0 :: k1 :: k :: ks)) (n : Nat) (hn : n ≠ 0)
    (h0 : ∀ l c o f, matchKind { rest := s, line := l, col := c, off := o, file := f } k0 = none)
    (h1 : ∀ l c o f, matchKind { rest := s, line := l, col := c, off := o, file := f } k1 = none)
    (hm : ∀ l c o f, ∃ m, matchKind { rest := s, line := l, col := c, off := o, file := f } k = some m ∧ m.len = n) :
    Steps s k (s.take n) (s.drop n) := by
  intro l c o f
  obtain ⟨m, hm1, hm2⟩ := hm l c o f
  subst hs
  subst hm2
  simp [next, hc, tryMatch, h0 l c o f, h1 l c o f, hm1, hn]

/-! ## punctuation and keywords -/

theorem steps_punct (ch : B) (k : TK) (r : List B) (hc : candidates ch = some [k])
    (hk : ∀ st, matchKind st k = some { len := 1, line := st.line, col := st.col + 1, file := st.file }) :
    Steps (ch :: 32 :: r) k [ch] (32 :: r) := by
  have := next_of_first (ch :: 32 :: r) ch (32 :: r) rfl k [] hc 1 (by decide) (fun l c o f => ⟨_, hk _, rfl⟩)
  simpa using this

theorem steps_curlyO (r) : Steps (123 :: 32 :: r) .curlyO [123] (32 :: r) := steps_punct 123 .curlyO r (by decide) (fun st => by simp [matchKind])
theorem steps_curlyC (r) : Steps (125 :: 32 :: r) .curlyC [125] (32 :: r) := steps_punct 125 .curlyC r (by decide) (fun st => by simp [matchKind])
theorem steps_roundO (r) : Steps (40 :: 32 :: r) .roundO [40] (32 :: r) := steps_punct 40 .roundO r (by decide) (fun st => by simp [matchKind])
theorem steps_roundC (r) : Steps (41 :: 32 :: r) .roundC [41] (32 :: r) := steps_punct 41 .roundC r (by decide) (fun st => by simp [matchKind])
theorem steps_edgeO (r) : Steps (91 :: 32 :: r) .edgeO [91] (32 :: r) := steps_punct 91 .edgeO r (by decide) (fun st => by simp [matchKind])
theorem steps_edgeC (r) : Steps (93 :: 32 :: r) .edgeC [93] (32 :: r) := steps_punct 93 .edgeC r (by decide) (fun st => by simp [matchKind])
theorem steps_semicolon (r) : Steps (59 :: 32 :: r) .semicolon [59] (32 :: r) := steps_punct 59 .semicolon r (by decide) (fun st => by simp [matchKind])
theorem steps_comma (r) : Steps (44 :: 32 :: r) .comma [44] (32 :: r) := steps_punct 44 .comma r (by decide) (fun st => by simp [matchKind])

/-- `=` followed by a blank: the operator table has no entry (only `==`), the assignment sign is next in line -/
theorem steps_equal (r) : Steps (61 :: 32 :: r) .equal [61] (32 :: r) := by
  have := next_of_second (61 :: 32 :: r) 61 (32 :: r) rfl .operator .equal [] (by decide) 1 (by decide)
    (fun l c o f => by simp [matchKind, opLen])
    (fun l c o f => ⟨{ len := 1, line := l, col := c + 1, file := f }, by simp [matchKind], rfl⟩)
  simpa using this

theorem steps_kw (kw : List B) (k : TK) (c0 : B) (cs : List B) (hkw : kw = c0 :: cs) (r : List B)
    (hc : candidates c0 = some [k, .ident])
    (hm : ∀ st : LState, st.rest = kw ++ 32 :: r → matchKind st k = some { len := kw.length, line := st.line, col := st.col + kw.length, file := st.file }) :
    Steps (kw ++ 32 :: r) k kw (32 :: r) := by
  have key := next_of_first (kw ++ 32 :: r) c0 (cs ++ 32 :: r) (by rw [hkw]; rfl) k [.ident] hc kw.length (by rw [hkw]; simp)
    (fun l c o f => ⟨_, hm _ rfl, rfl⟩)
  rw [take_len_append, drop_len_append] at key
  exact key

theorem steps_true (r) : Steps (kwTrue ++ 32 :: r) .tTrue kwTrue (32 :: r) :=
  steps_kw kwTrue .tTrue 116 [114, 117, 101] rfl r (by decide) (fun st h => by
    simp [matchKind, h, kwTrue, lenIdentMatch, toLower, isUpperAlpha, isLowerAlpha])
theorem steps_false (r) : Steps (kwFalse ++ 32 :: r) .tFalse kwFalse (32 :: r) :=
  steps_kw kwFalse .tFalse 102 [97, 108, 115, 101] rfl r (by decide) (fun st h => by
    simp [matchKind, h, kwFalse, lenIdentMatch, toLower, isUpperAlpha, isLowerAlpha])
theorem steps_private (r) : Steps (kwPrivate ++ 32 :: r) .tPrivate kwPrivate (32 :: r) :=
  steps_kw kwPrivate .tPrivate 112 [114, 105, 118, 97, 116, 101] rfl r (by decide) (fun st h => by
    simp [matchKind, h, kwPrivate, lenIdentMatch, toLower, isUpperAlpha, isLowerAlpha])

/-! ## names: identifier-like and symbolic -/

/-- a name the tokenizer reads as one `ident` token: a letter or `_` first, letters, digits and `_` behind it, and not
    `true` / `false` / `private` (in any case) followed by a character that is not a letter -/
def identOk (t : List B) : Bool :=
  match t with
  | [] => false
  | c :: cs => (isAlpha c || c == 95) && (c :: cs).all isIdentChar
      && lenIdentMatch kwTrue (c :: cs ++ [32]) 0 == 0 && lenIdentMatch kwFalse (c :: cs ++ [32]) 0 == 0
      && lenIdentMatch kwPrivate (c :: cs ++ [32]) 0 == 0

theorem steps_ident (t r : List B) (h : identOk t = true) : Steps (t ++ 32 :: r) .ident t (32 :: r) := by
  cases t with
  | nil => simp [identOk] at h
  | cons c cs =>
    simp only [identOk, Bool.and_eq_true, beq_iff_eq] at h
    obtain ⟨⟨⟨⟨hfirst, hall⟩, htr⟩, hfa⟩, hpr⟩ := h
    have hlen : lenWhile isIdentChar ((c :: cs) ++ 32 :: r) = (c :: cs).length :=
      lenWhile_append_stop isIdentChar (c :: cs) 32 r hall (by decide)
    have indep : ∀ kw : List B, (∀ x ∈ kw, x ≠ 32) → lenIdentMatch kw (c :: cs ++ [32]) 0 = 0 → lenIdentMatch kw (c :: (cs ++ 32 :: r)) 0 = 0 := by
      intro kw hk h0
      have := lenIdentMatch_indep kw hk (c :: cs) r 0
      simp only [List.cons_append] at this h0
      rw [this]; exact h0
    have htr' := indep kwTrue (by decide) htr
    have hfa' := indep kwFalse (by decide) hfa
    have hpr' := indep kwPrivate (by decide) hpr
    have hm : ∀ l c' o f, ∃ m, matchKind { rest := (c :: cs) ++ 32 :: r, line := l, col := c', off := o, file := f } .ident = some m ∧ m.len = (c :: cs).length := by
      intro l c' o f
      refine ⟨{ len := (c :: cs).length, line := l, col := c' + (c :: cs).length, file := f }, ?_, rfl⟩
      simp only [matchKind, hlen]
      simp
    have key : Steps ((c :: cs) ++ 32 :: r) .ident (((c :: cs) ++ 32 :: r).take (c :: cs).length) (((c :: cs) ++ 32 :: r).drop (c :: cs).length) := by
      by_cases h1 : (c == 102 || c == 70) = true
      · refine next_of_second _ c (cs ++ 32 :: r) rfl .tFalse .ident [] (by simp [candidates, h1]) _ (by simp) ?_ hm
        intro l c' o f
        simp [matchKind, hfa']
      · by_cases h2 : (c == 112 || c == 80) = true
        · refine next_of_second _ c (cs ++ 32 :: r) rfl .tPrivate .ident [] (by simp [candidates, h1, h2]) _ (by simp) ?_ hm
          intro l c' o f
          simp [matchKind, hpr']
        · by_cases h3 : (c == 116 || c == 84) = true
          · refine next_of_second _ c (cs ++ 32 :: r) rfl .tTrue .ident [] (by simp [candidates, h1, h2, h3]) _ (by simp) ?_ hm
            intro l c' o f
            simp [matchKind, htr']
          · refine next_of_first _ c (cs ++ 32 :: r) rfl .ident [] ?_ _ (by simp) hm
            simp only [Bool.not_eq_true] at h1 h2 h3
            simp [candidates, h1, h2, h3, hfirst]
    rw [take_len_append, drop_len_append] at key
    exact key

/-- the operator names made of symbol characters -/
def symbols : List (List B) :=
  [n!"==", n!"<=", n!"<", n!">=", n!">>", n!">", n!"+", n!"-", n!"/", n!"*", n!"%", n!"^", n!"!=", n!"!", n!":", n!"#", n!"||", n!"&&"]

theorem steps_symbol (sym r : List B) (h : sym ∈ symbols) : Steps (sym ++ 32 :: r) .operator sym (32 :: r) := by
  have mk : ∀ (c0 : B) (cs : List B), sym = c0 :: cs → opLen (sym ++ 32 :: r) = sym.length →
      (∀ l c o f, ∃ m, matchKind { rest := sym ++ 32 :: r, line := l, col := c, off := o, file := f } .operator = some m ∧ m.len = sym.length) := by
    intro c0 cs hs hl l c o f
    refine ⟨{ len := sym.length, line := l, col := c + sym.length, file := f }, ?_, rfl⟩
    have : sym.length ≠ 0 := by rw [hs]; simp
    simp [matchKind, hl, this]
  simp only [symbols, List.mem_cons, List.not_mem_nil, or_false] at h
  have fin : ∀ key : Steps (sym ++ 32 :: r) .operator ((sym ++ 32 :: r).take sym.length) ((sym ++ 32 :: r).drop sym.length),
      Steps (sym ++ 32 :: r) .operator sym (32 :: r) := by
    intro key; rw [take_len_append, drop_len_append] at key; exact key
  rcases h with rfl | rfl | rfl | rfl | rfl | rfl | rfl | rfl | rfl | rfl | rfl | rfl | rfl | rfl | rfl | rfl | rfl | rfl
  -- ==
  · exact fin (next_of_first _ 61 _ rfl .operator [.equal] (by decide) _ (by decide) (mk 61 [61] rfl (by simp [opLen])))
  · exact fin (next_of_first _ 60 _ rfl .operator [] (by decide) _ (by decide) (mk 60 [61] rfl (by simp [opLen])))
  · exact fin (next_of_first _ 60 _ rfl .operator [] (by decide) _ (by decide) (mk 60 [] rfl (by simp [opLen])))
  · exact fin (next_of_first _ 62 _ rfl .operator [] (by decide) _ (by decide) (mk 62 [61] rfl (by simp [opLen])))
  · exact fin (next_of_first _ 62 _ rfl .operator [] (by decide) _ (by decide) (mk 62 [62] rfl (by simp [opLen])))
  · exact fin (next_of_first _ 62 _ rfl .operator [] (by decide) _ (by decide) (mk 62 [] rfl (by simp [opLen])))
  -- + and -: a number is tried first
  · exact fin (next_of_second _ 43 _ rfl .number .operator [] (by decide) _ (by decide)
      (fun l c o f => by simp [matchKind, numLen, startsDot, lenWhile, isDigit]) (mk 43 [] rfl (by simp [opLen])))
  · exact fin (next_of_second _ 45 _ rfl .number .operator [] (by decide) _ (by decide)
      (fun l c o f => by simp [matchKind, numLen, startsDot, lenWhile, isDigit]) (mk 45 [] rfl (by simp [opLen])))
  -- /: the two comment forms are tried first
  · exact fin (next_of_third _ 47 _ rfl .commentLine .commentBlock .operator [] (by decide) _ (by decide)
      (fun l c o f => by simp [matchKind, lineCommentLen]) (fun l c o f => by simp [matchKind]) (mk 47 [] rfl (by simp [opLen])))
  · exact fin (next_of_first _ 42 _ rfl .operator [] (by decide) _ (by decide) (mk 42 [] rfl (by simp [opLen])))
  · exact fin (next_of_first _ 37 _ rfl .operator [] (by decide) _ (by decide) (mk 37 [] rfl (by simp [opLen])))
  · exact fin (next_of_first _ 94 _ rfl .operator [] (by decide) _ (by decide) (mk 94 [] rfl (by simp [opLen])))
  · exact fin (next_of_first _ 33 _ rfl .operator [] (by decide) _ (by decide) (mk 33 [61] rfl (by simp [opLen])))
  · exact fin (next_of_first _ 33 _ rfl .operator [] (by decide) _ (by decide) (mk 33 [] rfl (by simp [opLen])))
  · exact fin (next_of_first _ 58 _ rfl .operator [] (by decide) _ (by decide) (mk 58 [] rfl (by simp [opLen])))
  -- #: `#line` is tried first
  · exact fin (next_of_second _ 35 _ rfl .mLine .operator [] (by decide) _ (by decide)
      (fun l c o f => by simp [matchKind, matchLine, kwLine, lenIdentMatch, toLower, isUpperAlpha]) (mk 35 [] rfl (by simp [opLen])))
  · exact fin (next_of_first _ 124 _ rfl .operator [] (by decide) _ (by decide) (mk 124 [124] rfl (by simp [opLen])))
  · exact fin (next_of_first _ 38 _ rfl .operator [] (by decide) _ (by decide) (mk 38 [38] rfl (by simp [opLen])))

/-! ## numbers (digits, optional fraction), hexadecimal numbers, strings -/

theorem startsDot_digit (d : B) (ds : List B) (hd : isDigit d = true) : startsDot (d :: ds) = false := by
  unfold startsDot
  split
  · next h => simp at h; exact absurd h.1 (digit_not_dot d hd)
  · rfl

theorem numLen_digits (ds r : List B) (hne : ds ≠ []) (hall : ds.all isDigit = true) :
    Sqf.numLen (ds ++ 32 :: r) = ds.length := by
  have hlen : lenWhile isDigit (ds ++ 32 :: r) = ds.length := lenWhile_append_stop isDigit ds 32 r hall (by decide)
  obtain ⟨d, ds', rfl⟩ : ∃ d ds', ds = d :: ds' := by cases ds with | nil => exact absurd rfl hne | cons d ds' => exact ⟨d, ds', rfl⟩
  have hd : isDigit d = true := by simp only [List.all_cons, Bool.and_eq_true] at hall; exact hall.1
  have hsd := startsDot_digit d (ds' ++ 32 :: r) hd
  simp only [List.cons_append] at hlen hsd ⊢
  unfold Sqf.numLen
  simp only [hsd, hlen, Bool.not_false, Bool.true_and, Bool.false_eq_true, ↓reduceIte]
  have h0 : ((d :: ds').length == 0) = false := by simp
  simp only [h0, Bool.false_eq_true, ↓reduceIte]
  have hdrop : (d :: (ds' ++ 32 :: r)).drop (d :: ds').length = 32 :: r := by
    have := drop_len_append (d :: ds') (32 :: r); simpa using this
  simp [hdrop, numFracAt, numExpAt]

theorem numLen_frac (ds fs r : List B) (hne : ds ≠ []) (hall : ds.all isDigit = true) (hfne : fs ≠ []) (hfall : fs.all isDigit = true) :
    Sqf.numLen (ds ++ 46 :: (fs ++ 32 :: r)) = ds.length + 1 + fs.length := by
  have hlen : lenWhile isDigit (ds ++ 46 :: (fs ++ 32 :: r)) = ds.length := lenWhile_append_stop isDigit ds 46 _ hall (by decide)
  have hflen : lenWhile isDigit (fs ++ 32 :: r) = fs.length := lenWhile_append_stop isDigit fs 32 r hfall (by decide)
  have hfpos : (fs.length == 0) = false := by simpa using hfne
  obtain ⟨d, ds', rfl⟩ : ∃ d ds', ds = d :: ds' := by cases ds with | nil => exact absurd rfl hne | cons d ds' => exact ⟨d, ds', rfl⟩
  have hd : isDigit d = true := by simp only [List.all_cons, Bool.and_eq_true] at hall; exact hall.1
  have hsd := startsDot_digit d (ds' ++ 46 :: (fs ++ 32 :: r)) hd
  have hdrop1 : (d :: (ds' ++ 46 :: (fs ++ 32 :: r))).drop (d :: ds').length = 46 :: (fs ++ 32 :: r) := by
    have := drop_len_append (d :: ds') (46 :: (fs ++ 32 :: r)); simpa using this
  have hdrop2 : (d :: (ds' ++ 46 :: (fs ++ 32 :: r))).drop ((d :: ds').length + 1 + fs.length) = 32 :: r := by
    have e : d :: (ds' ++ 46 :: (fs ++ 32 :: r)) = ((d :: ds') ++ [46] ++ fs) ++ 32 :: r := by simp
    rw [e]
    have hl : (d :: ds').length + 1 + fs.length = ((d :: ds') ++ [46] ++ fs).length := by simp; omega
    rw [hl, drop_len_append]
  simp only [List.cons_append] at hlen hsd ⊢
  unfold Sqf.numLen
  simp only [hsd, hlen, Bool.not_false, Bool.true_and, Bool.false_eq_true, ↓reduceIte]
  have h0 : ((d :: ds').length == 0) = false := by simp
  simp only [h0, Bool.false_eq_true, ↓reduceIte, hdrop1]
  have hfrac : numFracAt (46 :: (fs ++ 32 :: r)) (d :: ds').length = (d :: ds').length + 1 + fs.length := by
    simp [numFracAt, hflen, hfpos]
  rw [hfrac, hdrop2]
  simp [numExpAt]

/-- the number tokens of the canonical text: digits and an optional fraction (as `CfgText.numBodyOk`) -/
def numOk (t : List B) : Bool := numBodyOk t

theorem numLen_ok (t r : List B) (h : numOk t = true) : Sqf.numLen (t ++ 32 :: r) = t.length := by
  unfold numOk numBodyOk at h
  simp only [Bool.and_eq_true, Bool.not_eq_true', List.isEmpty_eq_false_iff] at h
  obtain ⟨hne, hrest⟩ := h
  have hsplit : t.takeWhile isDigit ++ t.dropWhile isDigit = t := List.takeWhile_append_dropWhile
  have hall := all_takeWhile isDigit t
  generalize t.takeWhile isDigit = ds at *
  generalize t.dropWhile isDigit = fr at *
  subst hsplit
  match fr, hrest with
  | [], _ => simpa using numLen_digits ds r hne hall
  | 46 :: fs, hrest =>
    simp only [Bool.and_eq_true, Bool.not_eq_true', List.isEmpty_eq_false_iff] at hrest
    have := numLen_frac ds fs r hne hall hrest.1 hrest.2
    simp only [List.append_assoc, List.cons_append, List.length_append, List.length_cons]
    rw [this]; omega

theorem steps_number (t r : List B) (h : numOk t = true) : Steps (t ++ 32 :: r) .number t (32 :: r) := by
  obtain ⟨d, ds, rfl, hd⟩ := numBodyOk_head t h
  have hlen := numLen_ok (d :: ds) r h
  have hm : ∀ l c o f, ∃ m, matchKind { rest := (d :: ds) ++ 32 :: r, line := l, col := c, off := o, file := f } .number = some m ∧ m.len = (d :: ds).length := by
    intro l c o f
    refine ⟨{ len := (d :: ds).length, line := l, col := c + (d :: ds).length, file := f }, ?_, rfl⟩
    simp only [matchKind, hlen]
    simp
  have key : Steps ((d :: ds) ++ 32 :: r) .number (((d :: ds) ++ 32 :: r).take (d :: ds).length) (((d :: ds) ++ 32 :: r).drop (d :: ds).length) := by
    by_cases h48 : d = 48
    · subst h48
      refine next_of_second _ 48 (ds ++ 32 :: r) rfl .hexadecimal .number [] (by decide) _ (by simp) ?_ hm
      intro l c o f
      cases ds with
      | nil => simp [matchKind, hexLen]
      | cons e es =>
        by_cases he : e = 120
        · subst he
          simp [numOk, numBodyOk, List.takeWhile, List.dropWhile, isDigit] at h
        · simp [matchKind, hexLen, he]
    · refine next_of_first _ d (ds ++ 32 :: r) rfl .number [] ?_ _ (by simp) hm
      rcases digit_cases d hd with rfl | rfl | rfl | rfl | rfl | rfl | rfl | rfl | rfl | rfl
      · exact absurd rfl h48
      all_goals decide
  rw [take_len_append, drop_len_append] at key
  exact key

theorem steps_hex (t r : List B) (h : hexOk t = true) : Steps (t ++ 32 :: r) .hexadecimal t (32 :: r) := by
  unfold hexOk at h
  split at h
  · next hs =>
    simp only [Bool.and_eq_true, Bool.not_eq_true', List.isEmpty_eq_false_iff] at h
    have hlen : lenWhile isHexDigit (hs ++ 32 :: r) = hs.length := lenWhile_append_stop isHexDigit hs 32 r h.2 (by decide)
    have hpos : (hs.length == 0) = false := by simpa using h.1
    have key := next_of_first ((48 :: 120 :: hs) ++ 32 :: r) 48 _ rfl .hexadecimal [.number] (by decide) (48 :: 120 :: hs).length (by simp)
      (fun l c o f => ⟨{ len := (48 :: 120 :: hs).length, line := l, col := c + (48 :: 120 :: hs).length, file := f }, by
        simp [matchKind, hexLen, hlen, hpos]; omega, rfl⟩)
    rw [take_len_append, drop_len_append] at key
    exact key
  · next hs =>
    simp only [Bool.and_eq_true, Bool.not_eq_true', List.isEmpty_eq_false_iff] at h
    have hlen : lenWhile isHexDigit (hs ++ 32 :: r) = hs.length := lenWhile_append_stop isHexDigit hs 32 r h.2 (by decide)
    have hpos : (hs.length == 0) = false := by simpa using h.1
    have key := next_of_first ((36 :: hs) ++ 32 :: r) 36 _ rfl .hexadecimal [] (by decide) (36 :: hs).length (by simp)
      (fun l c o f => ⟨{ len := (36 :: hs).length, line := l, col := c + (36 :: hs).length, file := f }, by
        simp [matchKind, hexLen, hlen, hpos]; omega, rfl⟩)
    rw [take_len_append, drop_len_append] at key
    exact key
  · simp at h

theorem scanStr_quoted (q : B) (hq : q ≠ 32) (b r : List B) :
    ∀ n l k, (Sqf.scanStr q false (quoteBody q b ++ q :: 32 :: r) n l k).1 = n + (quoteBody q b).length + 1 := by
  induction b with
  | nil =>
    intro n l k
    have : (32 == q) = false := by simpa using fun h => hq h.symm
    simp [quoteBody, Sqf.scanStr, this]
  | cons x xs ih =>
    intro n l k
    by_cases hx : x = q
    · subst hx
      simp only [quoteBody, beq_self_eq_true, ↓reduceIte, List.cons_append]
      rw [Sqf.scanStr]
      simp only [beq_self_eq_true, ↓reduceIte]
      rw [Sqf.scanStr]
      simp only [beq_self_eq_true, ↓reduceIte]
      rw [ih]
      simp only [List.length_cons]; omega
    · have hxq : (x == q) = false := by simpa using hx
      simp only [quoteBody, hxq, Bool.false_eq_true, ↓reduceIte, List.cons_append]
      rw [Sqf.scanStr]
      simp only [hxq, Bool.false_eq_true, ↓reduceIte]
      split
      · rw [ih]; simp only [List.length_cons]; omega
      · rw [ih]; simp only [List.length_cons]; omega

theorem steps_str (q : B) (hq : q = 34 ∨ q = 39) (t r : List B) (h : strOk q t = true) :
    Steps (t ++ 32 :: r) (if q = 34 then .stringDouble else .stringSingle) t (32 :: r) := by
  simp only [strOk, beq_iff_eq] at h
  generalize fromSqf t = b at h
  subst h
  have hq32 : q ≠ 32 := by rcases hq with rfl | rfl <;> decide
  have hscan := scanStr_quoted q hq32 b r
  have hlenT : (q :: (quoteBody q b ++ [q])).length = 1 + (quoteBody q b).length + 1 := by simp; omega
  rcases hq with rfl | rfl
  · have key := next_of_first ((34 :: (quoteBody 34 b ++ [34])) ++ 32 :: r) 34 _ rfl .stringDouble [] (by decide)
      (34 :: (quoteBody 34 b ++ [34])).length (by simp)
      (fun l c o f => ⟨Match.mk (Sqf.scanStr 34 false (quoteBody 34 b ++ 34 :: 32 :: r) 1 l (c + 1)).1
                        (Sqf.scanStr 34 false (quoteBody 34 b ++ 34 :: 32 :: r) 1 l (c + 1)).2.1
                        (Sqf.scanStr 34 false (quoteBody 34 b ++ 34 :: 32 :: r) 1 l (c + 1)).2.2 f, by
        simp [matchKind], by rw [hscan, hlenT]⟩)
    rw [take_len_append, drop_len_append] at key
    simpa using key
  · have key := next_of_first ((39 :: (quoteBody 39 b ++ [39])) ++ 32 :: r) 39 _ rfl .stringSingle [] (by decide)
      (39 :: (quoteBody 39 b ++ [39])).length (by simp)
      (fun l c o f => ⟨Match.mk (Sqf.scanStr 39 false (quoteBody 39 b ++ 39 :: 32 :: r) 1 l (c + 1)).1
                        (Sqf.scanStr 39 false (quoteBody 39 b ++ 39 :: 32 :: r) 1 l (c + 1)).2.1
                        (Sqf.scanStr 39 false (quoteBody 39 b ++ 39 :: 32 :: r) 1 l (c + 1)).2.2 f, by
        simp [matchKind], by rw [hscan, hlenT]⟩)
    rw [take_len_append, drop_len_append] at key
    simpa using key

theorem steps_ws (r : List B) (hr : startsNonWs r = true) : Steps (32 :: r) .whitespace [32] r := by
  have hscan : ∀ l k, Sqf.scanWs (32 :: r) 0 l k = (1, l, k + 1) := by
    intro l k
    cases r with
    | nil => simp [Sqf.scanWs, isWs]
    | cons c cs =>
      have : isWs c = false := by simpa [startsNonWs] using hr
      simp [Sqf.scanWs, isWs] at *
      simp [this]
  have key := next_of_first (32 :: r) 32 r rfl .whitespace [] (by decide) 1 (by decide)
    (fun l c o f => ⟨{ len := 1, line := l, col := c + 1, file := f }, by simp [matchKind, hscan], rfl⟩)
  simpa using key

/-! ## a whole token sequence -/

/-- the spelling of a parser token -/
def ptokText : PTok → List B
  | .eof | .invalid => []
  | .tTrue => kwTrue | .tFalse => kwFalse | .tPrivate => kwPrivate
  | .curlyO => [123] | .curlyC => [125] | .roundO => [40] | .roundC => [41] | .squareO => [91] | .squareC => [93]
  | .semicolon => [59] | .comma => [44] | .equal => [61]
  | .op _ _ n => n | .opU n => n | .opN n => n | .opUN n => n | .ident n => n
  | .number t => t | .hexnumber t => t | .string t => t

/-- a name token is what the tokenizer and the registry make of its spelling -/
def nameOk (reg : Registry) (t : PTok) (n : Name) : Bool :=
  (identOk n && classify reg true n == t) || (decide (n ∈ symbols) && classify reg false n == t)

/-- the parser tokens the tokenizer reads back from their spelling, under the registry `reg` -/
def lexable (reg : Registry) (t : PTok) : Bool :=
  match t with
  | .eof | .invalid => false
  | .tTrue | .tFalse | .tPrivate | .curlyO | .curlyC | .roundO | .roundC | .squareO | .squareC | .semicolon | .comma | .equal => true
  | .op _ _ n => nameOk reg t n
  | .opU n => nameOk reg t n
  | .opN n => nameOk reg t n
  | .opUN n => nameOk reg t n
  | .ident n => nameOk reg t n
  | .number x => numOk x
  | .hexnumber x => hexOk x
  | .string x => strOk 34 x || strOk 39 x

def renderPToks : List PTok → List B
  | [] => []
  | t :: ts => ptokText t ++ 32 :: renderPToks ts

/-- one token: the tokenizer cuts exactly its spelling off the text and `yylex` classifies it as the token -/
def TokStep (reg : Registry) (t : PTok) : Prop :=
  ∀ r, ∃ k, Steps (ptokText t ++ 32 :: r) k (ptokText t) (32 :: r) ∧
    (k ≠ .eof ∧ k ≠ .invalid) ∧
    ∀ l c o f, toPTok reg { kind := k, text := ptokText t, line := l, col := c, off := o, file := f } = some t

theorem tokStep_name (reg : Registry) (t : PTok) (n : Name) (ht : ptokText t = n) (h : nameOk reg t n = true) : TokStep reg t := by
  intro r
  simp only [nameOk, Bool.or_eq_true, Bool.and_eq_true, beq_iff_eq, decide_eq_true_eq] at h
  rcases h with ⟨hi, hc⟩ | ⟨hs, hc⟩
  · exact ⟨.ident, by rw [ht]; exact steps_ident n r hi, ⟨by decide, by decide⟩, fun l c o f => by simp [toPTok, ht, hc]⟩
  · exact ⟨.operator, by rw [ht]; exact steps_symbol n r hs, ⟨by decide, by decide⟩, fun l c o f => by simp [toPTok, ht, hc]⟩

theorem lexable_step (reg : Registry) (t : PTok) (h : lexable reg t = true) : TokStep reg t := by
  cases t with
  | eof => simp [lexable] at h
  | invalid => simp [lexable] at h
  | tTrue => exact fun r => ⟨.tTrue, steps_true r, ⟨by decide, by decide⟩, fun _ _ _ _ => rfl⟩
  | tFalse => exact fun r => ⟨.tFalse, steps_false r, ⟨by decide, by decide⟩, fun _ _ _ _ => rfl⟩
  | tPrivate => exact fun r => ⟨.tPrivate, steps_private r, ⟨by decide, by decide⟩, fun _ _ _ _ => rfl⟩
  | curlyO => exact fun r => ⟨.curlyO, steps_curlyO r, ⟨by decide, by decide⟩, fun _ _ _ _ => rfl⟩
  | curlyC => exact fun r => ⟨.curlyC, steps_curlyC r, ⟨by decide, by decide⟩, fun _ _ _ _ => rfl⟩
  | roundO => exact fun r => ⟨.roundO, steps_roundO r, ⟨by decide, by decide⟩, fun _ _ _ _ => rfl⟩
  | roundC => exact fun r => ⟨.roundC, steps_roundC r, ⟨by decide, by decide⟩, fun _ _ _ _ => rfl⟩
  | squareO => exact fun r => ⟨.edgeO, steps_edgeO r, ⟨by decide, by decide⟩, fun _ _ _ _ => rfl⟩
  | squareC => exact fun r => ⟨.edgeC, steps_edgeC r, ⟨by decide, by decide⟩, fun _ _ _ _ => rfl⟩
  | semicolon => exact fun r => ⟨.semicolon, steps_semicolon r, ⟨by decide, by decide⟩, fun _ _ _ _ => rfl⟩
  | comma => exact fun r => ⟨.comma, steps_comma r, ⟨by decide, by decide⟩, fun _ _ _ _ => rfl⟩
  | equal => exact fun r => ⟨.equal, steps_equal r, ⟨by decide, by decide⟩, fun _ _ _ _ => rfl⟩
  | op cls lvl n => exact tokStep_name reg _ n rfl (by simpa [lexable] using h)
  | opU n => exact tokStep_name reg _ n rfl (by simpa [lexable] using h)
  | opN n => exact tokStep_name reg _ n rfl (by simpa [lexable] using h)
  | opUN n => exact tokStep_name reg _ n rfl (by simpa [lexable] using h)
  | ident n => exact tokStep_name reg _ n rfl (by simpa [lexable] using h)
  | number x =>
    exact fun r => ⟨.number, steps_number x r (by simpa [lexable] using h), ⟨by decide, by decide⟩, fun _ _ _ _ => rfl⟩
  | hexnumber x =>
    exact fun r => ⟨.hexadecimal, steps_hex x r (by simpa [lexable] using h), ⟨by decide, by decide⟩, fun _ _ _ _ => rfl⟩
  | string x =>
    simp only [lexable, Bool.or_eq_true] at h
    rcases h with h | h
    · exact fun r => ⟨.stringDouble, by have := steps_str 34 (Or.inl rfl) x r h; simpa [ptokText] using this, ⟨by decide, by decide⟩, fun _ _ _ _ => rfl⟩
    · exact fun r => ⟨.stringSingle, by have := steps_str 39 (Or.inr rfl) x r h; simpa [ptokText] using this, ⟨by decide, by decide⟩, fun _ _ _ _ => rfl⟩

theorem identOk_head (n : Name) (h : identOk n = true) : ∃ c cs, n = c :: cs ∧ isWs c = false := by
  cases n with
  | nil => simp [identOk] at h
  | cons c cs =>
    refine ⟨c, cs, rfl, ?_⟩
    simp only [identOk, Bool.and_eq_true] at h
    have hf := h.1.1.1.1
    simp only [isWs]
    simp only [Bool.or_eq_true, beq_iff_eq, isAlpha, isLowerAlpha, isUpperAlpha, Bool.and_eq_true, decide_eq_true_eq] at hf
    have h1 : (c == 32) = false := by simp; intro hc; subst hc; simp at hf
    have h2 : (c == 10) = false := by simp; intro hc; subst hc; simp at hf
    have h3 : (c == 13) = false := by simp; intro hc; subst hc; simp at hf
    have h4 : (c == 9) = false := by simp; intro hc; subst hc; simp at hf
    simp [h1, h2, h3, h4]

theorem name_head (reg : Registry) (t : PTok) (n : Name) (h : nameOk reg t n = true) : ∃ c cs, n = c :: cs ∧ isWs c = false := by
  simp only [nameOk, Bool.or_eq_true, Bool.and_eq_true, beq_iff_eq, decide_eq_true_eq] at h
  rcases h with ⟨hi, _⟩ | ⟨hs, _⟩
  · exact identOk_head n hi
  · simp only [symbols, List.mem_cons, List.not_mem_nil, or_false] at hs
    rcases hs with rfl | rfl | rfl | rfl | rfl | rfl | rfl | rfl | rfl | rfl | rfl | rfl | rfl | rfl | rfl | rfl | rfl | rfl <;>
      exact ⟨_, _, rfl, by decide⟩

theorem lexable_head (reg : Registry) (t : PTok) (h : lexable reg t = true) : ∃ c cs, ptokText t = c :: cs ∧ isWs c = false := by
  cases t with
  | eof => simp [lexable] at h
  | invalid => simp [lexable] at h
  | tTrue => exact ⟨_, _, rfl, by decide⟩
  | tFalse => exact ⟨_, _, rfl, by decide⟩
  | tPrivate => exact ⟨_, _, rfl, by decide⟩
  | curlyO => exact ⟨_, _, rfl, by decide⟩
  | curlyC => exact ⟨_, _, rfl, by decide⟩
  | roundO => exact ⟨_, _, rfl, by decide⟩
  | roundC => exact ⟨_, _, rfl, by decide⟩
  | squareO => exact ⟨_, _, rfl, by decide⟩
  | squareC => exact ⟨_, _, rfl, by decide⟩
  | semicolon => exact ⟨_, _, rfl, by decide⟩
  | comma => exact ⟨_, _, rfl, by decide⟩
  | equal => exact ⟨_, _, rfl, by decide⟩
  | op cls lvl n => exact name_head reg _ n (by simpa [lexable] using h)
  | opU n => exact name_head reg _ n (by simpa [lexable] using h)
  | opN n => exact name_head reg _ n (by simpa [lexable] using h)
  | opUN n => exact name_head reg _ n (by simpa [lexable] using h)
  | ident n => exact name_head reg _ n (by simpa [lexable] using h)
  | number x =>
    obtain ⟨d, ds, rfl, hd⟩ := numBodyOk_head x (by simpa [lexable, numOk] using h)
    refine ⟨d, ds, rfl, ?_⟩
    rcases digit_cases d hd with rfl | rfl | rfl | rfl | rfl | rfl | rfl | rfl | rfl | rfl <;> decide
  | hexnumber x =>
    have hx : hexOk x = true := by simpa [lexable] using h
    simp only [hexOk] at hx
    split at hx
    · exact ⟨48, _, rfl, by decide⟩
    · exact ⟨36, _, rfl, by decide⟩
    · simp at hx
  | string x =>
    simp only [lexable, Bool.or_eq_true, strOk, beq_iff_eq] at h
    rcases h with h | h
    · exact ⟨34, _, h, by decide⟩
    · exact ⟨39, _, h, by decide⟩

theorem renderPToks_starts (reg : Registry) (ts : List PTok) (h : ∀ t ∈ ts, lexable reg t = true) : startsNonWs (renderPToks ts) = true := by
  cases ts with
  | nil => simp [renderPToks, startsNonWs]
  | cons t ts =>
    obtain ⟨c, cs, hc, hw⟩ := lexable_head reg t (h t List.mem_cons_self)
    simp [renderPToks, hc, startsNonWs, hw]

/-- the tokenizer and `yylex` on the canonical text of a lexable token sequence give the sequence back -/
theorem ptoks_render_aux (reg : Registry) (ts : List PTok) (h : ∀ t ∈ ts, lexable reg t = true) :
    ∀ fuel l c o f, 2 * ts.length + 1 ≤ fuel →
      (lexAll fuel { rest := renderPToks ts, line := l, col := c, off := o, file := f }).filterMap (toPTok reg) = ts ++ [.eof] := by
  induction ts with
  | nil =>
    intro fuel l c o f hf
    obtain ⟨f', rfl⟩ : ∃ f', fuel = f' + 1 := ⟨fuel - 1, by omega⟩
    simp [renderPToks, lexAll, next, toPTok]
  | cons t ts ih =>
    intro fuel l c o f hf
    simp only [List.length_cons] at hf
    obtain ⟨f', rfl⟩ : ∃ f', fuel = f' + 1 := ⟨fuel - 1, by omega⟩
    obtain ⟨f'', rfl⟩ : ∃ f'', f' = f'' + 1 := ⟨f' - 1, by omega⟩
    have ht := h t List.mem_cons_self
    have hts : ∀ u ∈ ts, lexable reg u = true := fun u hu => h u (List.mem_cons_of_mem _ hu)
    obtain ⟨k, hs, ⟨hk1, hk2⟩, hcl⟩ := lexable_step reg t ht (renderPToks ts)
    obtain ⟨h1, h2, h3⟩ := hs l c o f
    have hne : ((k == TK.eof || k == TK.invalid) = false) := by simp [hk1, hk2]
    rw [renderPToks, lexAll]
    simp only [h1, hne, Bool.false_eq_true, ↓reduceIte]
    generalize hst : (next { rest := ptokText t ++ 32 :: renderPToks ts, line := l, col := c, off := o, file := f }) = nx at *
    obtain ⟨tok, st1⟩ := nx
    obtain ⟨rest1, l1, c1, o1, f1⟩ := st1
    simp only at h1 h2 h3
    subst h3
    obtain ⟨hw1, hw2, hw3⟩ := steps_ws (renderPToks ts) (renderPToks_starts reg ts hts) l1 c1 o1 f1
    rw [lexAll]
    have hwne : ((TK.whitespace == TK.eof || TK.whitespace == TK.invalid) = false) := by decide
    simp only [hw1, hwne, Bool.false_eq_true, ↓reduceIte]
    generalize hst2 : (next { rest := 32 :: renderPToks ts, line := l1, col := c1, off := o1, file := f1 }) = nx2 at *
    obtain ⟨tok2, st2⟩ := nx2
    obtain ⟨rest2, l2, c2, o2, f2⟩ := st2
    simp only at hw1 hw2 hw3
    subst hw3
    have hrec := ih hts f'' l2 c2 o2 f2 (by omega)
    have htok : toPTok reg tok = some t := by
      have := hcl tok.line tok.col tok.off tok.file
      obtain ⟨tk, tt, tl, tc, to, tf⟩ := tok
      simp only at h1 h2
      subst h1; subst h2
      exact this
    have htok2 : toPTok reg tok2 = none := by
      obtain ⟨tk, tt, tl, tc, to, tf⟩ := tok2
      simp only at hw1
      subst hw1
      simp [toPTok]
    simp only [List.filterMap_cons, htok, htok2, hrec, List.cons_append]

theorem renderPToks_length (reg : Registry) (ts : List PTok) (h : ∀ t ∈ ts, lexable reg t = true) : 2 * ts.length ≤ (renderPToks ts).length := by
  induction ts with
  | nil => simp [renderPToks]
  | cons t ts ih =>
    obtain ⟨c, cs, hc, _⟩ := lexable_head reg t (h t List.mem_cons_self)
    have := ih (fun u hu => h u (List.mem_cons_of_mem _ hu))
    simp only [renderPToks, List.length_cons, List.length_append, hc]
    omega

/-- **the parser tokens of the canonical text are the tokens it was written from** -/
theorem ptoks_render (reg : Registry) (ts : List PTok) (h : ∀ t ∈ ts, lexable reg t = true) :
    ptoks reg (renderPToks ts) = ts ++ [.eof] := by
  have hlen := renderPToks_length reg ts h
  unfold ptoks lexText LState.init
  exact ptoks_render_aux reg ts h _ 1 0 0 [102] (by omega)

end Sqf.LexRound
