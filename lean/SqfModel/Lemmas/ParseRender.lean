import SqfModel.Decorated
import SqfModel.Lemmas.ParseRules
/-!
# parse ∘ print = erase, for every well-parenthesised decorated tree
-/
set_option linter.unusedSimpArgs false
namespace Sqf
open D

/-- The first token of `rest` (if any) is not a binary operator of a level ≥ `k`. -/
def Follow (k : Nat) (rest : List PTok) : Prop :=
  ∀ t r, rest = t :: r → ∀ j, k ≤ j → binOpAt j t = none

theorem Follow.mono {k k' rest} (h : k ≤ k') : Follow k rest → Follow k' rest :=
  fun hf t r e j hj => hf t r e j (Nat.le_trans h hj)

theorem Follow.nil {k} : Follow k [] := by intro t r e; cases e

theorem Follow.loopStop {k rest a} (h : Follow k rest) : Loop k a rest a rest := by
  cases rest with
  | nil => exact Loop.stop_nil
  | cons t r => exact Loop.stop (h t r rfl k (Nat.le_refl k))

/-- a token that is no binary operator at all -/
def NoBinOp (t : PTok) : Prop := ∀ j, binOpAt j t = none

theorem Follow.ofNoBinOp {k t r} (h : NoBinOp t) : Follow k (t :: r) := by
  intro t' r' e j _; cases e; exact h j

theorem noBinOp_roundC : NoBinOp .roundC := fun _ => rfl
theorem noBinOp_squareC : NoBinOp .squareC := fun _ => rfl
theorem noBinOp_curlyC : NoBinOp .curlyC := fun _ => rfl
theorem noBinOp_comma : NoBinOp .comma := fun _ => rfl
theorem noBinOp_semicolon : NoBinOp .semicolon := fun _ => rfl
theorem noBinOp_eof : NoBinOp .eof := fun _ => rfl
theorem noBinOp_equal : NoBinOp .equal := fun _ => rfl

theorem noBinOp_of_isSep {t} (h : isSep t = true) : NoBinOp t := by
  cases t <;> simp [isSep] at h <;> intro j <;> rfl

theorem binTok_inv {t l n} (h : binOfTok t = some (l, n)) : ∃ cls, t = .op cls l n := by
  cases t with
  | op cls l' m => simp [binOfTok] at h; obtain ⟨rfl, rfl⟩ := h; exact ⟨cls, rfl⟩
  | _ => simp [binOfTok] at h

theorem binOpAt_binTok {t l n} (h : binOfTok t = some (l, n)) : binOpAt l t = some n := by
  obtain ⟨cls, rfl⟩ := binTok_inv h; simp [binOpAt]

theorem Follow.ofBinTok {t l n r} (h : binOfTok t = some (l, n)) : Follow (l + 1) (t :: r) := by
  obtain ⟨cls, rfl⟩ := binTok_inv h
  intro t' r' e j hj; cases e
  simp [binOpAt]; omega

/-- climbing down through the loops of levels that do not fire -/
theorem climb {ts a r} : ∀ d k, k + d ≤ top → Follow k r → Exp (k + d) ts a r → Exp k ts a r := by
  intro d
  induction d with
  | zero => intro k _ _ h; simpa using h
  | succ d ih =>
    intro k hk hf h
    have h' : Exp (k + 1) ts a r :=
      ih (k + 1) (by omega) (hf.mono (by omega)) (by simpa [Nat.add_assoc, Nat.add_comm 1 d] using h)
    exact Exp.step (by omega) h' hf.loopStop

theorem climbTo {ts a r k l} (hkl : k ≤ l) (hl : l ≤ top) (hf : Follow k r) :
    Exp l ts a r → Exp k ts a r := by
  intro h
  exact climb (l - k) k (by omega) hf (by rwa [Nat.add_sub_cancel' hkl])

/-! ### first tokens -/

theorem leafTok_starts {t l} (h : leafOfTok t = some l) : startsOperand t = true := by
  cases t with
  | op cls _ _ => cases cls <;> simp [leafOfTok] at h <;> rfl
  | _ => first | rfl | simp [leafOfTok] at h

theorem unTok_starts {t n} (h : unOfTok t = some n) : startsOperand t = true := by
  cases t with
  | op cls _ _ => cases cls <;> simp [unOfTok] at h <;> rfl
  | _ => first | rfl | simp [unOfTok] at h

theorem isSep_not_starts {t} (h : isSep t = true) : startsOperand t = false := by
  cases t <;> simp [isSep] at h <;> rfl

/-- an expression starts with a token that can start an operand -/
theorem head_starts : ∀ d : D, d.isExpr = true → d.WP → ∃ t r, d.toks = t :: r ∧ startsOperand t = true
  | .leaf t l, _, hw => ⟨t, [], by simp [toks], leafTok_starts (by simpa [WP] using hw)⟩
  | .unary t n a, _, hw => ⟨t, a.toks, by simp [toks], unTok_starts (by simp [WP] at hw; exact hw.1)⟩
  | .binary t l n a b, _, hw => by
    simp only [WP] at hw
    obtain ⟨t', r', e, hs⟩ := head_starts a hw.2.2.2.1 hw.2.2.2.2.2.2.2.1
    exact ⟨t', r' ++ t :: b.toks, by simp [toks, e], hs⟩
  | .paren a, _, _ => ⟨.roundO, a.toks ++ [.roundC], by simp [toks], rfl⟩
  | .array es, _, _ => ⟨.squareO, toksArr es ++ [.squareC], by simp [toks], rfl⟩
  | .code lead ss, _, _ => ⟨.curlyO, lead ++ toksSeq ss ++ [.curlyC], by simp [toks], rfl⟩
  | .assign _ _, h, _ => by simp [isExpr] at h
  | .assignLocal _ _, h, _ => by simp [isExpr] at h
  | .seq _ _, h, _ => by simp [isExpr] at h

/-! ### `private x = …` cannot be confused with an expression statement -/

theorem leafTok_ne_private {t l} (h : leafOfTok t = some l) : t ≠ .tPrivate := by
  intro e; subst e; simp [leafOfTok] at h

theorem unTok_ne_ident {t n m} (h : unOfTok t = some n) : t ≠ .ident m := by
  intro e; subst e; simp [unOfTok] at h

theorem leafTok_ne_equal {t l} (h : leafOfTok t = some l) : t ≠ .equal := by
  intro e; subst e; simp [leafOfTok] at h

/-- tokens of a non-binary expression followed by `Z` never look like `IDENT = …` unless `Z` starts with `=` -/
theorem notIdentEqual (a : D) (he : a.isExpr = true) (hl : a.lvl = top) (hw : a.WP)
    (Z : List PTok) (hZ : ∀ x, Z ≠ .equal :: x) : ∀ n r, a.toks ++ Z ≠ .ident n :: .equal :: r := by
  intro n r e
  cases a with
  | leaf t l => simp [toks] at e; exact hZ r e.2
  | unary t m a' => simp [toks] at e; simp [WP] at hw; exact unTok_ne_ident hw.1 e.1
  | binary t l m a' b' => simp [lvl] at hl; simp [WP] at hw; omega
  | paren a' => simp [toks] at e
  | array es => simp [toks] at e
  | code lead ss => simp [toks] at e
  | assign _ _ => simp [isExpr] at he
  | assignLocal _ _ => simp [isExpr] at he
  | seq _ _ => simp [isExpr] at he

theorem notPrivAssign : ∀ d : D, d.isExpr = true → d.WP → ∀ Z, (∀ x, Z ≠ .equal :: x) →
    NotPrivAssign (d.toks ++ Z)
  | .leaf t l, _, hw, Z, _ => by
    intro n r e; simp [toks] at e; exact leafTok_ne_private (by simpa [WP] using hw) e.1
  | .unary t m a, _, hw, Z, hZ => by
    intro n r e
    simp only [WP] at hw
    simp only [toks, List.cons_append, List.cons.injEq] at e
    exact notIdentEqual a hw.2.1 hw.2.2.1 hw.2.2.2 Z hZ n r e.2
  | .binary t l m a b, _, hw, Z, _ => by
    simp only [WP] at hw
    have := notPrivAssign a hw.2.2.2.1 hw.2.2.2.2.2.2.2.1 (t :: b.toks ++ Z) (by
      intro x e; obtain ⟨cls, rfl⟩ := binTok_inv hw.1; simp at e)
    intro n r e
    exact this n r (by simpa [toks, List.append_assoc] using e)
  | .paren a, _, _, Z, _ => by intro n r e; simp [toks] at e
  | .array es, _, _, Z, _ => by intro n r e; simp [toks] at e
  | .code lead ss, _, _, Z, _ => by intro n r e; simp [toks] at e
  | .assign _ _, h, _, _, _ => by simp [isExpr] at h
  | .assignLocal _ _, h, _, _, _ => by simp [isExpr] at h
  | .seq _ _, h, _, _, _ => by simp [isExpr] at h

/-! ### separators -/

theorem skipSeps_cons_not {t r} (h : isSep t = false) : skipSeps (t :: r) = t :: r := by
  simp [skipSeps, h]

theorem skipSeps_append {seps : List PTok} (h : ∀ t ∈ seps, isSep t = true) (Y : List PTok) :
    skipSeps (seps ++ Y) = skipSeps Y := by
  induction seps with
  | nil => rfl
  | cons t ts ih =>
    have ht : isSep t = true := h t (by simp)
    simp only [List.cons_append, skipSeps, ht, if_true]
    exact ih (fun t' ht' => h t' (by simp [ht']))

theorem starts_not_sep {t} (h : startsOperand t = true) : isSep t = false := by
  cases hs : isSep t with
  | false => rfl
  | true => rw [isSep_not_starts hs] at h; cases h

/-! ### the main induction (on the size of the decorated tree) -/

/-- what may follow a statement: a token that is neither a binary operator nor `=` -/
def StmtFollow (Y : List PTok) : Prop := ∃ t r, Y = t :: r ∧ NoBinOp t ∧ t ≠ .equal

/-- what may follow a statement sequence: `}` or end of file -/
def StmtEnd (Y : List PTok) : Prop :=
  ∃ t r, Y = t :: r ∧ NoBinOp t ∧ t ≠ .equal ∧ startsOperand t = false ∧ isSep t = false

theorem StmtFollow.follow {Y k} (h : StmtFollow Y) : Follow k Y := by
  obtain ⟨t, r, rfl, hb, _⟩ := h; exact Follow.ofNoBinOp hb

theorem StmtFollow.ne_equal {Y} (h : StmtFollow Y) : ∀ x, Y ≠ .equal :: x := by
  obtain ⟨t, r, rfl, _, hne⟩ := h
  intro x e; simp at e; exact hne e.1

theorem StmtEnd.stmtFollow {Y} (h : StmtEnd Y) : StmtFollow Y := by
  obtain ⟨t, r, e, hb, hne, _, _⟩ := h; exact ⟨t, r, e, hb, hne⟩

theorem stmtFollow_of_seps {seps : List PTok} (h : ∀ t ∈ seps, isSep t = true) (hne : seps ≠ []) (Y) :
    StmtFollow (seps ++ Y) := by
  cases seps with
  | nil => exact absurd rfl hne
  | cons t ts =>
    have ht := h t (by simp)
    refine ⟨t, ts ++ Y, rfl, noBinOp_of_isSep ht, ?_⟩
    intro e; subst e; simp [isSep] at ht

structure Main (n : Nat) : Prop where
  /-- operands -/
  prim : ∀ d : D, d.size ≤ n → d.isExpr = true → d.WP → d.lvl = top →
    ∀ X, Prim (d.toks ++ X) d.erase X d.isValue
  /-- expressions in a context of level `k` -/
  exp : ∀ d : D, d.size ≤ n → d.isExpr = true → d.WP →
    ∀ k, k ≤ d.lvl → ∀ rest, Follow k rest → Exp k (d.toks ++ rest) d.erase rest
  /-- an operand chain of level `l` continued by the level-`l` loop -/
  cont : ∀ d : D, d.size ≤ n → d.isExpr = true → d.WP →
    ∀ l, l ≤ d.lvl → l < top → ∀ X T R, Follow (l + 1) X → Loop l d.erase X T R → Exp l (d.toks ++ X) T R
  /-- further array elements -/
  atail : ∀ es : List D, sizeList es ≤ n → WPArr es →
    ∀ rest, ATail (toksTail es ++ .squareC :: rest) (eraseList es) rest
  /-- statement sequences -/
  stmts : ∀ ss : List D, sizeList ss ≤ n → WPSeq ss →
    ∀ rest, StmtEnd rest → Stmts (toksSeq ss ++ rest) (eraseList ss) rest

theorem size_pos (d : D) : 1 ≤ d.size := by cases d <;> simp [size] <;> omega

theorem main_zero : Main 0 := by
  refine ⟨?_, ?_, ?_, ?_, ?_⟩
  · intro d h; have := size_pos d; omega
  · intro d h; have := size_pos d; omega
  · intro d h; have := size_pos d; omega
  · intro es h _ rest
    cases es with
    | nil => simpa [toksTail, eraseList] using ATail.nil
    | cons e es => simp [sizeList] at h
  · intro ss h _ rest hr
    cases ss with
    | nil =>
      obtain ⟨t, r, rfl, _, _, hs, _⟩ := hr
      simpa [toksSeq, eraseList] using Stmts.stop hs
    | cons e es => simp [sizeList] at h

/-! ### helpers for the induction step -/

theorem prim_leaf {t l X} (h : leafOfTok t = some l) : Prim (t :: X) (.leaf l) X true := by
  cases t with
  | op cls _ _ =>
    cases cls <;> simp [leafOfTok] at h
    subst h; exact Prim.opBN
  | string s => simp [leafOfTok] at h; subst h; exact Prim.string
  | number s => simp [leafOfTok] at h; subst h; exact Prim.number
  | hexnumber s => simp [leafOfTok] at h; subst h; exact Prim.hexnumber
  | tTrue => simp [leafOfTok] at h; subst h; exact Prim.tTrue
  | tFalse => simp [leafOfTok] at h; subst h; exact Prim.tFalse
  | ident n => simp [leafOfTok] at h; subst h; exact Prim.ident
  | opN n => simp [leafOfTok] at h; subst h; exact Prim.opN
  | _ => simp [leafOfTok] at h

theorem prim_unary {t n t' r a r' b} (h : unOfTok t = some n) (hs : startsOperand t' = true) :
    Prim (t' :: r) a r' b → Prim (t :: t' :: r) (.unary n a) r' false := by
  intro hp
  cases t with
  | op cls _ _ =>
    cases cls <;> simp [unOfTok] at h
    · subst h; exact Prim.opBU hp
    · subst h; exact Prim.opBUN_unary hs hp
  | tPrivate => simp [unOfTok] at h; subst h; exact Prim.tPrivate hp
  | opU m => simp [unOfTok] at h; subst h; exact Prim.opU hp
  | opUN m => simp [unOfTok] at h; subst h; exact Prim.opUN hp
  | _ => simp [unOfTok] at h

theorem one_le_lvl : ∀ d : D, d.WP → 1 ≤ d.lvl := by
  intro d hw
  cases d <;> simp [lvl, top]
  simp [WP] at hw; exact hw.2.1

theorem lvl_le_top : ∀ d : D, d.WP → d.lvl ≤ top := by
  intro d hw
  cases d <;> simp [lvl]
  simp [WP] at hw; omega

theorem isValue_isExpr {d : D} (h : d.isValue = true) : d.isExpr = true := by
  cases d <;> simp [isValue] at h <;> rfl

theorem isValue_lvl {d : D} (h : d.isValue = true) : d.lvl = top := by
  cases d <;> simp [isValue] at h <;> rfl

/-- a statement starts with a token that can start an operand -/
theorem stmt_head_starts (st : D) (hs : st.isStmt = true) (hw : st.WP) :
    ∃ t r, st.toks = t :: r ∧ startsOperand t = true := by
  cases st with
  | assign lhs e =>
    simp only [WP] at hw
    obtain ⟨t, r, e1, h1⟩ := head_starts lhs (isValue_isExpr hw.1) hw.2.1
    exact ⟨t, r ++ .equal :: e.toks, by simp [toks, e1], h1⟩
  | assignLocal n e => exact ⟨.tPrivate, .ident n :: .equal :: e.toks, by simp [toks], rfl⟩
  | seq _ _ => simp [isStmt, isExpr] at hs
  | leaf t l => exact head_starts _ rfl hw
  | unary t n a => exact head_starts _ rfl hw
  | binary t l n a b => exact head_starts _ rfl hw
  | paren a => exact head_starts _ rfl hw
  | array es => exact head_starts _ rfl hw
  | code lead ss => exact head_starts _ rfl hw

theorem seq_head_starts (s : D) (hs : s.isSeq = true) (hw : s.WP) :
    ∃ t r, s.toks = t :: r ∧ startsOperand t = true := by
  cases s <;> simp [isSeq] at hs
  next st seps =>
    simp only [WP] at hw
    obtain ⟨t, r, e, h⟩ := stmt_head_starts st hw.1 hw.2.1
    exact ⟨t, r ++ seps, by simp [toks, e], h⟩

/-- the token list of a statement sequence followed by `}`/eof does not start with a separator -/
theorem skipSeps_seq (ss : List D) (hw : WPSeq ss) (Y : List PTok) (hY : StmtEnd Y) :
    skipSeps (toksSeq ss ++ Y) = toksSeq ss ++ Y := by
  cases ss with
  | nil =>
    obtain ⟨t, r, rfl, _, _, _, hsep⟩ := hY
    simpa [toksSeq] using skipSeps_cons_not hsep
  | cons s ss =>
    simp only [WPSeq] at hw
    obtain ⟨t, r, e, h⟩ := seq_head_starts s hw.1 hw.2.1
    simp only [toksSeq, e, List.cons_append]
    exact skipSeps_cons_not (starts_not_sep h)

theorem stmtEnd_curlyC (X) : StmtEnd (.curlyC :: X) :=
  ⟨.curlyC, X, rfl, noBinOp_curlyC, by simp, rfl, rfl⟩
theorem stmtEnd_eof : StmtEnd [.eof] := ⟨.eof, [], rfl, noBinOp_eof, by simp, rfl, rfl⟩

theorem value_notPrivAssign (lhs : D) (hv : lhs.isValue = true) (hw : lhs.WP) (Z : List PTok) :
    NotPrivAssign (lhs.toks ++ Z) := by
  intro n r e
  cases lhs <;> simp [isValue] at hv <;> simp [toks] at e
  simp only [WP] at hw
  exact leafTok_ne_private hw e.1

/-- one statement followed by something that is neither an operator nor `=` -/
theorem stmt_of {n} (ih : Main n) (st : D) (hsz : st.size ≤ n) (hs : st.isStmt = true) (hw : st.WP)
    (Y : List PTok) (hY : StmtFollow Y) : Stmt (st.toks ++ Y) st.erase Y := by
  have expr_case : st.isExpr = true → Stmt (st.toks ++ Y) st.erase Y := by
    intro he
    have hexp := ih.exp st hsz he hw 1 (one_le_lvl st hw) Y hY.follow
    obtain ⟨p, rp, b, hp, hseed⟩ := Exp.inv hexp
    refine Stmt.expr (notPrivAssign st he hw Y hY.ne_equal) ?_ hp hseed
    intro _ x e
    subst e
    obtain ⟨_, e2⟩ := Seed.inv_stop noBinOp_equal 10 1 _ _ _ rfl hseed
    exact hY.ne_equal x e2
  cases st with
  | assign lhs e =>
    simp only [WP] at hw
    simp only [size] at hsz
    have hp := ih.prim lhs (by omega) (isValue_isExpr hw.1) hw.2.1 (isValue_lvl hw.1) (.equal :: e.toks ++ Y)
    rw [hw.1] at hp
    have he := ih.exp e (by omega) hw.2.2.1 hw.2.2.2 1 (one_le_lvl e hw.2.2.2) Y hY.follow
    have hnp : NotPrivAssign (lhs.toks ++ (.equal :: e.toks ++ Y)) := value_notPrivAssign lhs hw.1 hw.2.1 _
    have := Stmt.assign hnp hp he
    simpa [toks, erase, List.append_assoc] using this
  | assignLocal m e =>
    simp only [WP] at hw
    simp only [size] at hsz
    have he := ih.exp e (by omega) hw.1 hw.2 1 (one_le_lvl e hw.2) Y hY.follow
    simpa [toks, erase] using Stmt.assignLocal (n := m) he
  | seq _ _ => simp [isStmt, isExpr] at hs
  | leaf t l => exact expr_case rfl
  | unary t n a => exact expr_case rfl
  | binary t l n a b => exact expr_case rfl
  | paren a => exact expr_case rfl
  | array es => exact expr_case rfl
  | code lead ss => exact expr_case rfl

/-! ### the induction step -/

theorem follow_tail_or_close (es : List D) (rest : List PTok) {k} :
    Follow k (toksTail es ++ .squareC :: rest) := by
  cases es with
  | nil => simpa [toksTail] using Follow.ofNoBinOp (k := k) (r := rest) noBinOp_squareC
  | cons e es => simpa [toksTail] using Follow.ofNoBinOp (k := k) noBinOp_comma

theorem prim_step {n} (ih : Main n) (d : D) (hsz : d.size ≤ n + 1) (he : d.isExpr = true) (hw : d.WP)
    (hl : d.lvl = top) (X : List PTok) : Prim (d.toks ++ X) d.erase X d.isValue := by
  cases d with
  | leaf t l => simp only [WP] at hw; simpa [toks, erase, isValue] using prim_leaf (X := X) hw
  | unary t m a =>
    simp only [WP] at hw
    simp only [size] at hsz
    obtain ⟨t', r, e, hs⟩ := head_starts a hw.2.1 hw.2.2.2
    have hp := ih.prim a (by omega) hw.2.1 hw.2.2.2 hw.2.2.1 X
    rw [e] at hp
    simpa [toks, erase, isValue, e] using prim_unary hw.1 hs hp
  | binary t l m a b => simp [lvl] at hl; simp only [WP] at hw; omega
  | paren a =>
    simp only [WP] at hw
    simp only [size] at hsz
    rcases hw.2 with hb | hwa
    · -- ( bun )
      cases a with
      | leaf t l =>
        cases t with
        | op cls lv nm =>
          cases cls <;> cases l <;> simp [isBunNular] at hb
          subst hb
          have h1 : Prim (.op .bun lv nm :: .roundC :: X) (.leaf (.nular nm)) (.roundC :: X) true :=
            Prim.opBUN_nular rfl
          have h2 : Exp 1 (.op .bun lv nm :: .roundC :: X) (.leaf (.nular nm)) (.roundC :: X) :=
            climbTo (l := top) (by unfold top; omega) (Nat.le_refl _) (Follow.ofNoBinOp noBinOp_roundC)
              (Exp.ofPrim (Nat.le_refl _) h1)
          simpa [toks, erase, isValue] using Prim.paren h2
        | _ => cases l <;> simp [isBunNular] at hb
      | _ => simp [isBunNular] at hb
    · have h2 := ih.exp a (by omega) hw.1 hwa 1 (one_le_lvl a hwa) (.roundC :: X) (Follow.ofNoBinOp noBinOp_roundC)
      have := Prim.paren h2
      simpa [toks, erase, isValue, List.append_assoc] using this
  | array es =>
    simp only [WP] at hw
    simp only [size] at hsz
    cases es with
    | nil => simpa [toks, toksArr, erase, eraseList, isValue] using Prim.arrayNil (r := X)
    | cons e es =>
      simp only [WPArr] at hw
      simp only [sizeList] at hsz
      have h1 := ih.exp e (by omega) hw.1 hw.2.1 1 (one_le_lvl e hw.2.1) (toksTail es ++ .squareC :: X)
        (follow_tail_or_close es X)
      have h2 := ih.atail es (by omega) hw.2.2 X
      obtain ⟨t', r, e1, hs⟩ := head_starts e hw.1 hw.2.1
      have hne : ∀ x, e.toks ++ (toksTail es ++ .squareC :: X) ≠ .squareC :: x := by
        intro x ex; rw [e1] at ex; simp at ex; rw [ex.1] at hs; cases hs
      have := Prim.arrayCons hne h1 h2
      simpa [toks, toksArr, erase, eraseList, isValue, List.append_assoc] using this
  | code lead ss =>
    simp only [WP] at hw
    simp only [size] at hsz
    have h1 := ih.stmts ss (by omega) hw.2 (.curlyC :: X) (stmtEnd_curlyC X)
    have hsk : skipSeps (lead ++ (toksSeq ss ++ .curlyC :: X)) = toksSeq ss ++ .curlyC :: X := by
      rw [skipSeps_append hw.1]; exact skipSeps_seq ss hw.2 _ (stmtEnd_curlyC X)
    have := Prim.code (r := lead ++ (toksSeq ss ++ .curlyC :: X)) (by rw [hsk]; exact h1)
    simpa [toks, erase, isValue, List.append_assoc] using this
  | assign _ _ => simp [isExpr] at he
  | assignLocal _ _ => simp [isExpr] at he
  | seq _ _ => simp [isExpr] at he

theorem exp_step {n} (ih : Main n) (d : D) (hsz : d.size ≤ n + 1) (he : d.isExpr = true) (hw : d.WP)
    (k : Nat) (hk : k ≤ d.lvl) (rest : List PTok) (hf : Follow k rest) :
    Exp k (d.toks ++ rest) d.erase rest := by
  by_cases hl : d.lvl = top
  · have hp := prim_step ih d hsz he hw hl rest
    exact climbTo (by rw [← hl]; exact hk) (Nat.le_refl _) hf (Exp.ofPrim (Nat.le_refl _) hp)
  · cases d with
    | binary t l m a b =>
      simp only [WP] at hw
      simp only [size] at hsz
      simp only [lvl] at hk
      obtain ⟨hbt, hl1, hl2, hea, heb, hla, hlb, hwa, hwb⟩ := hw
      have hb := ih.exp b (by omega) heb hwb (l + 1) hlb rest (hf.mono (by omega))
      have hloop : Loop l a.erase (t :: (b.toks ++ rest)) (.binary l m a.erase b.erase) rest :=
        Loop.more (binOpAt_binTok hbt) hb (hf.mono hk).loopStop
      have hbody := ih.cont a (by omega) hea hwa l hla hl2 (t :: (b.toks ++ rest)) _ _ (Follow.ofBinTok hbt) hloop
      have : Exp l ((D.binary t l m a b).toks ++ rest) (D.binary t l m a b).erase rest := by
        simpa [toks, erase, List.append_assoc] using hbody
      exact climbTo hk (by omega) hf this
    | _ => simp [lvl] at hl

theorem cont_step {n} (ih : Main n) (d : D) (hsz : d.size ≤ n + 1) (he : d.isExpr = true) (hw : d.WP)
    (l : Nat) (hl : l ≤ d.lvl) (hlt : l < top) (X : List PTok) (T : Ast) (R : List PTok)
    (hX : Follow (l + 1) X) (hL : Loop l d.erase X T R) : Exp l (d.toks ++ X) T R := by
  by_cases hlv : d.lvl = l
  · cases d with
    | binary t l' m a b =>
      simp only [lvl] at hlv
      subst hlv
      simp only [WP] at hw
      simp only [size] at hsz
      obtain ⟨hbt, hl1, hl2, hea, heb, hla, hlb, hwa, hwb⟩ := hw
      have hb := ih.exp b (by omega) heb hwb (l' + 1) hlb X hX
      have hloop : Loop l' a.erase (t :: (b.toks ++ X)) T R := Loop.more (binOpAt_binTok hbt) hb hL
      have := ih.cont a (by omega) hea hwa l' hla hl2 (t :: (b.toks ++ X)) T R (Follow.ofBinTok hbt) hloop
      simpa [toks, List.append_assoc] using this
    | _ => simp [lvl] at hlv; omega
  · have h1 := exp_step ih d hsz he hw (l + 1) (by omega) X hX
    exact Exp.step (by omega) h1 hL

theorem atail_step {n} (ih : Main n) (es : List D) (hsz : sizeList es ≤ n + 1) (hw : WPArr es)
    (rest : List PTok) : ATail (toksTail es ++ .squareC :: rest) (eraseList es) rest := by
  cases es with
  | nil => simpa [toksTail, eraseList] using ATail.nil
  | cons e es =>
    simp only [WPArr] at hw
    simp only [sizeList] at hsz
    have h1 := ih.exp e (by omega) hw.1 hw.2.1 1 (one_le_lvl e hw.2.1) (toksTail es ++ .squareC :: rest)
      (follow_tail_or_close es rest)
    have h2 := ih.atail es (by omega) hw.2.2 rest
    simpa [toksTail, eraseList, List.append_assoc] using ATail.cons h1 h2

theorem stmts_step {n} (ih : Main n) (ss : List D) (hsz : sizeList ss ≤ n + 1) (hw : WPSeq ss)
    (rest : List PTok) (hr : StmtEnd rest) : Stmts (toksSeq ss ++ rest) (eraseList ss) rest := by
  cases ss with
  | nil =>
    obtain ⟨t, r, rfl, _, _, hs, _⟩ := hr
    simpa [toksSeq, eraseList] using Stmts.stop hs
  | cons s ss =>
    simp only [WPSeq] at hw
    simp only [sizeList] at hsz
    obtain ⟨hseq, hws, hsep, hwss⟩ := hw
    cases s with
    | seq st seps =>
      simp only [WP] at hws
      simp only [size] at hsz
      obtain ⟨hst, hwst, hseps⟩ := hws
      obtain ⟨t, r, e, hstart⟩ := stmt_head_starts st hst hwst
      have hrest := ih.stmts ss (by omega) hwss rest hr
      cases seps with
      | nil =>
        -- no separator: this is the last statement
        have hss : ss = [] := by
          cases ss with
          | nil => rfl
          | cons _ _ => have := hsep (by simp); simp [hasSeps] at this
        subst hss
        have hs := stmt_of ih st (by omega) hst hwst rest hr.stmtFollow
        obtain ⟨t', r', rfl, _, _, _, hns⟩ := hr
        rw [e] at hs
        have := Stmts.last hstart hns hs
        simpa [toksSeq, toks, eraseList, erase, e] using this
      | cons sp seps =>
        have hY : StmtFollow ((sp :: seps) ++ (toksSeq ss ++ rest)) :=
          stmtFollow_of_seps hseps (by simp) _
        have hs := stmt_of ih st (by omega) hst hwst _ hY
        rw [e] at hs
        have hsp : isSep sp = true := hseps sp (by simp)
        have hsk : skipSeps ((sp :: seps) ++ (toksSeq ss ++ rest)) = toksSeq ss ++ rest := by
          rw [skipSeps_append hseps]; exact skipSeps_seq ss hwss rest hr
        have hsk' : skipSeps (sp :: (seps ++ (toksSeq ss ++ rest))) = toksSeq ss ++ rest := hsk
        have := Stmts.more (r := seps ++ (toksSeq ss ++ rest)) hstart hsp hs (by rw [hsk']; exact hrest)
        simpa [toksSeq, toks, eraseList, erase, e, List.append_assoc] using this
    | _ => simp [isSeq] at hseq

theorem main_all : ∀ n, Main n := by
  intro n
  induction n with
  | zero => exact main_zero
  | succ n ih =>
    exact ⟨fun d h1 h2 h3 h4 X => prim_step ih d h1 h2 h3 h4 X,
           fun d h1 h2 h3 k hk rest hf => exp_step ih d h1 h2 h3 k hk rest hf,
           fun d h1 h2 h3 l hl hlt X T R hX hL => cont_step ih d h1 h2 h3 l hl hlt X T R hX hL,
           fun es h1 h2 rest => atail_step ih es h1 h2 rest,
           fun ss h1 h2 rest hr => stmts_step ih ss h1 h2 rest hr⟩

end Sqf
