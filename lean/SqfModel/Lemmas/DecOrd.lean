import SqfModel.Value
/-! order lemmas for exact decimals -/
namespace Sqf.DecOrd
open Sqf

/-- the signed mantissa of `d` scaled to exponent `e` (for `e ≤ d.exp`) -/
def sval (d : Dec) (e : Int) : Int := Dec.toSigned d.neg (d.mant * 10 ^ (d.exp - e).toNat)

theorem toSigned_mul (neg : Bool) (m k : Nat) : Dec.toSigned neg (m * k) = Dec.toSigned neg m * (k : Int) := by
  unfold Dec.toSigned; split <;> simp [Int.neg_mul]

theorem pow_pos' (k : Nat) : (0 : Int) < ((10 ^ k : Nat) : Int) := by
  have : 0 < 10 ^ k := Nat.pow_pos (by decide)
  exact_mod_cast this

/-- rescaling to a smaller exponent multiplies by a positive power of ten -/
theorem sval_rescale (d : Dec) (e e' : Int) (h1 : e' ≤ e) (h2 : e ≤ d.exp) :
    sval d e' = sval d e * ((10 ^ (e - e').toNat : Nat) : Int) := by
  unfold sval
  rw [← toSigned_mul]
  congr 1
  rw [Nat.mul_assoc, ← Nat.pow_add]
  congr 2
  omega

theorem cmpKey_eq (a b : Dec) : Dec.cmpKey a b = (sval a (min a.exp b.exp), sval b (min a.exp b.exp)) := by
  unfold Dec.cmpKey Dec.align sval
  by_cases h : a.exp ≤ b.exp
  · have hm : min a.exp b.exp = a.exp := by omega
    simp [h, hm]
  · have hm : min a.exp b.exp = b.exp := by omega
    simp [h, hm]

/-- `lt` does not depend on the common exponent chosen -/
theorem lt_iff (a b : Dec) (e : Int) (ha : e ≤ a.exp) (hb : e ≤ b.exp) : Dec.lt a b = true ↔ sval a e < sval b e := by
  unfold Dec.lt
  rw [cmpKey_eq]
  simp only [decide_eq_true_eq]
  have hm : e ≤ min a.exp b.exp := by omega
  rw [sval_rescale a (min a.exp b.exp) e hm (by omega), sval_rescale b (min a.exp b.exp) e hm (by omega)]
  have hp := pow_pos' (min a.exp b.exp - e).toNat
  constructor
  · intro h; exact Int.mul_lt_mul_of_pos_right h hp
  · intro h; exact Int.lt_of_mul_lt_mul_right h (Int.le_of_lt hp)

theorem lt_irrefl (a : Dec) : Dec.lt a a = false := by
  cases h : Dec.lt a a with
  | false => rfl
  | true => have := (lt_iff a a a.exp (Int.le_refl _) (Int.le_refl _)).mp h; omega

theorem lt_trans (a b c : Dec) (h1 : Dec.lt a b = true) (h2 : Dec.lt b c = true) : Dec.lt a c = true := by
  let e := min a.exp (min b.exp c.exp)
  have ha : e ≤ a.exp := by omega
  have hb : e ≤ b.exp := by omega
  have hc : e ≤ c.exp := by omega
  have := (lt_iff a b e ha hb).mp h1
  have := (lt_iff b c e hb hc).mp h2
  exact (lt_iff a c e ha hc).mpr (by omega)

theorem lt_asymm (a b : Dec) (h : Dec.lt a b = true) : Dec.lt b a = false := by
  cases h2 : Dec.lt b a with
  | false => rfl
  | true => have := lt_trans a b a h h2; rw [lt_irrefl] at this; cases this

/-- being neither smaller nor larger is transitive (it is: having the same value) -/
theorem incomparable_trans (a b c : Dec) (h1 : Dec.lt a b = false) (h2 : Dec.lt b a = false) (h3 : Dec.lt b c = false) (h4 : Dec.lt c b = false) :
    Dec.lt a c = false ∧ Dec.lt c a = false := by
  let e := min a.exp (min b.exp c.exp)
  have ha : e ≤ a.exp := by omega
  have hb : e ≤ b.exp := by omega
  have hc : e ≤ c.exp := by omega
  have n1 : ¬ sval a e < sval b e := fun h => by rw [(lt_iff a b e ha hb).mpr h] at h1; cases h1
  have n2 : ¬ sval b e < sval a e := fun h => by rw [(lt_iff b a e hb ha).mpr h] at h2; cases h2
  have n3 : ¬ sval b e < sval c e := fun h => by rw [(lt_iff b c e hb hc).mpr h] at h3; cases h3
  have n4 : ¬ sval c e < sval b e := fun h => by rw [(lt_iff c b e hc hb).mpr h] at h4; cases h4
  constructor
  · cases h : Dec.lt a c with
    | false => rfl
    | true => have := (lt_iff a c e ha hc).mp h; omega
  · cases h : Dec.lt c a with
    | false => rfl
    | true => have := (lt_iff c a e hc ha).mp h; omega

end Sqf.DecOrd
