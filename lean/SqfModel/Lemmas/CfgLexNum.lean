import SqfModel.Lemmas.CfgLex
/-!
# The config tokenizer on numbers, hexadecimal numbers and strings (helper lemmas for C15)
-/
namespace Sqf.CfgText
open Sqf Sqf.Cfg

/-! ## numbers: optional sign, digits, optional fraction -/

theorem numBody_nodot (d : B) (ds : List B) (hd : d ≠ 46) :
    numBody (d :: ds) = if lenWhile isDigit (d :: ds) == 0 then none else numTail (d :: ds) (lenWhile isDigit (d :: ds)) := by
  unfold numBody
  split
  · next h => simp at h; exact absurd h.1 hd
  · rfl

theorem numExp_space (r : List B) (n : Nat) : numExp (32 :: r) n = n := by simp [numExp]
theorem numFrac_space (r : List B) (n : Nat) : numFrac (32 :: r) n = n := by simp [numFrac]
theorem numFrac_dot (fs r : List B) (n : Nat) (hfne : fs ≠ []) (hfall : fs.all isDigit = true) :
    numFrac (46 :: (fs ++ 32 :: r)) n = n + 1 + fs.length := by
  have hflen : lenWhile isDigit (fs ++ 32 :: r) = fs.length := lenWhile_append_stop isDigit fs 32 r hfall (by decide)
  have hfpos : (fs.length == 0) = false := by simpa using hfne
  simp [numFrac, hflen, hfpos]

theorem numTail_digits (ds r : List B) :
    numTail (ds ++ 32 :: r) ds.length = some ds.length := by
  unfold numTail
  simp only [drop_len_append, numFrac_space, numExp_space]
  simp [isLetterOrUnderscore, isAlpha, isLowerAlpha, isUpperAlpha]

theorem numTail_frac (ds fs r : List B) (hfne : fs ≠ []) (hfall : fs.all isDigit = true) :
    numTail (ds ++ 46 :: (fs ++ 32 :: r)) ds.length = some (ds.length + 1 + fs.length) := by
  have hdrop : (ds ++ 46 :: (fs ++ 32 :: r)).drop (ds.length + 1 + fs.length) = 32 :: r := by
    have : ds ++ 46 :: (fs ++ 32 :: r) = (ds ++ [46] ++ fs) ++ 32 :: r := by simp
    rw [this]
    have hl : ds.length + 1 + fs.length = (ds ++ [46] ++ fs).length := by simp; omega
    rw [hl, drop_len_append]
  unfold numTail
  simp only [drop_len_append, numFrac_dot fs r ds.length hfne hfall, hdrop, numExp_space]
  simp [isLetterOrUnderscore, isAlpha, isLowerAlpha, isUpperAlpha]

/-- digits and an optional fraction -/
def numBodyOk (b : List B) : Bool :=
  !(b.takeWhile isDigit).isEmpty &&
    (match b.dropWhile isDigit with
     | [] => true
     | 46 :: fs => !fs.isEmpty && fs.all isDigit
     | _ => false)

def numOk (t : List B) : Bool :=
  match t with
  | 45 :: b => numBodyOk b
  | 43 :: b => numBodyOk b
  | b => numBodyOk b

theorem all_takeWhile (p : B → Bool) (b : List B) : (b.takeWhile p).all p = true := by
  induction b with
  | nil => simp
  | cons x xs ih =>
    by_cases h : p x = true
    · simp only [List.takeWhile, h, List.all_cons, Bool.true_and]; exact ih
    · simp [List.takeWhile, h]

theorem digit_not_dot (d : B) (hd : isDigit d = true) : d ≠ 46 := by
  intro h; subst h; simp [isDigit] at hd

theorem numBody_digits (ds r : List B) (hne : ds ≠ []) (hall : ds.all isDigit = true) :
    numBody (ds ++ 32 :: r) = some ds.length := by
  have hlen : lenWhile isDigit (ds ++ 32 :: r) = ds.length := lenWhile_append_stop isDigit ds 32 r hall (by decide)
  obtain ⟨d, ds', rfl⟩ : ∃ d ds', ds = d :: ds' := by cases ds with | nil => exact absurd rfl hne | cons d ds' => exact ⟨d, ds', rfl⟩
  have hd : isDigit d = true := by simp only [List.all_cons, Bool.and_eq_true] at hall; exact hall.1
  have := numBody_nodot d (ds' ++ 32 :: r) (digit_not_dot d hd)
  simp only [List.cons_append] at hlen ⊢
  rw [this, hlen]
  have h0 : ((d :: ds').length == 0) = false := by simp
  simp only [h0, Bool.false_eq_true, ↓reduceIte]
  exact numTail_digits (d :: ds') r

theorem numBody_frac (ds fs r : List B) (hne : ds ≠ []) (hall : ds.all isDigit = true)
    (hfne : fs ≠ []) (hfall : fs.all isDigit = true) :
    numBody (ds ++ 46 :: (fs ++ 32 :: r)) = some (ds.length + 1 + fs.length) := by
  have hlen : lenWhile isDigit (ds ++ 46 :: (fs ++ 32 :: r)) = ds.length :=
    lenWhile_append_stop isDigit ds 46 _ hall (by decide)
  obtain ⟨d, ds', rfl⟩ : ∃ d ds', ds = d :: ds' := by cases ds with | nil => exact absurd rfl hne | cons d ds' => exact ⟨d, ds', rfl⟩
  have hd : isDigit d = true := by simp only [List.all_cons, Bool.and_eq_true] at hall; exact hall.1
  have := numBody_nodot d (ds' ++ 46 :: (fs ++ 32 :: r)) (digit_not_dot d hd)
  simp only [List.cons_append] at hlen ⊢
  rw [this, hlen]
  have h0 : ((d :: ds').length == 0) = false := by simp
  simp only [h0, Bool.false_eq_true, ↓reduceIte]
  exact numTail_frac (d :: ds') fs r hfne hfall

theorem numBody_ok (b r : List B) (h : numBodyOk b = true) : numBody (b ++ 32 :: r) = some b.length := by
  unfold numBodyOk at h
  simp only [Bool.and_eq_true, Bool.not_eq_true', List.isEmpty_eq_false_iff] at h
  obtain ⟨hne, hrest⟩ := h
  have hsplit : b.takeWhile isDigit ++ b.dropWhile isDigit = b := List.takeWhile_append_dropWhile
  have hall := all_takeWhile isDigit b
  generalize b.takeWhile isDigit = ds at *
  generalize b.dropWhile isDigit = fr at *
  subst hsplit
  match fr, hrest with
  | [], _ => simpa using numBody_digits ds r hne hall
  | 46 :: fs, hrest =>
    simp only [Bool.and_eq_true, Bool.not_eq_true', List.isEmpty_eq_false_iff] at hrest
    have := numBody_frac ds fs r hne hall hrest.1 hrest.2
    simp only [List.append_assoc, List.cons_append, List.length_append, List.length_cons]
    rw [this]; congr 1; omega

theorem numBodyOk_head (b : List B) (h : numBodyOk b = true) : ∃ d ds, b = d :: ds ∧ isDigit d = true := by
  unfold numBodyOk at h
  simp only [Bool.and_eq_true, Bool.not_eq_true', List.isEmpty_eq_false_iff] at h
  cases b with
  | nil => simp at h
  | cons d ds =>
    refine ⟨d, ds, rfl, ?_⟩
    by_cases hd : isDigit d = true
    · exact hd
    · simp [List.takeWhile, hd] at h

theorem digit_cases (d : Nat) (hd : isDigit d = true) :
    d = 48 ∨ d = 49 ∨ d = 50 ∨ d = 51 ∨ d = 52 ∨ d = 53 ∨ d = 54 ∨ d = 55 ∨ d = 56 ∨ d = 57 := by
  simp only [isDigit, Bool.and_eq_true, decide_eq_true_eq] at hd
  omega

theorem digit_not_sign (d : Nat) (hd : isDigit d = true) : (d == 43 || d == 45) = false := by
  rcases digit_cases d hd with rfl | rfl | rfl | rfl | rfl | rfl | rfl | rfl | rfl | rfl <;> decide

theorem numLen_plain (b r : List B) (h : numBodyOk b = true) : numLen (b ++ 32 :: r) = b.length := by
  obtain ⟨d, ds, rfl, hd⟩ := numBodyOk_head b h
  have hnb := numBody_ok (d :: ds) r h
  simp only [List.cons_append] at hnb ⊢
  simp only [numLen, digit_not_sign d hd, Bool.false_eq_true, ↓reduceIte, hnb]

theorem numLen_signed (sg : B) (hs : (sg == 43 || sg == 45) = true) (b r : List B) (h : numBodyOk b = true) :
    numLen (sg :: b ++ 32 :: r) = (sg :: b).length := by
  have hnb := numBody_ok b r h
  simp only [List.cons_append, numLen, hs, ↓reduceIte, hnb, List.length_cons]

theorem matchKind_number (s : List B) (n : Nat) (hn : numLen s = n) (hpos : n ≠ 0) :
    ∀ l c o, ∃ m, matchKind { rest := s, line := l, col := c, off := o } .number = some m ∧ m.len = n := by
  intro l c o
  refine ⟨{ len := n, line := l, col := c + n }, ?_, rfl⟩
  simp [matchKind, hn, hpos]

theorem steps_number (t r : List B) (h : numOk t = true) : Steps (t ++ 32 :: r) .number t (32 :: r) := by
  have fin : ∀ (c0 : B) (cs : List B), t = c0 :: cs → numLen (t ++ 32 :: r) = t.length →
      (∀ k0s, candidates c0 = some (.number :: k0s) ∨ True) →
      ((∃ k0s, candidates c0 = some (.number :: k0s)) ∨
       (∃ k0 k0s, candidates c0 = some (k0 :: .number :: k0s) ∧
          ∀ l c o, matchKind { rest := t ++ 32 :: r, line := l, col := c, off := o } k0 = none)) →
      Steps (t ++ 32 :: r) .number t (32 :: r) := by
    intro c0 cs ht hlen _ hc
    have hne : t.length ≠ 0 := by rw [ht]; simp
    have hs : t ++ 32 :: r = c0 :: (cs ++ 32 :: r) := by rw [ht]; simp
    have hm := matchKind_number (t ++ 32 :: r) t.length hlen hne
    have key : Steps (t ++ 32 :: r) .number ((t ++ 32 :: r).take t.length) ((t ++ 32 :: r).drop t.length) := by
      rcases hc with ⟨k0s, hc⟩ | ⟨k0, k0s, hc, h0⟩
      · exact next_of_first _ c0 _ hs .number k0s hc _ hne hm
      · exact next_of_second _ c0 _ hs k0 .number k0s hc _ hne h0 hm
    rw [take_len_append, drop_len_append] at key
    exact key
  unfold numOk at h
  split at h
  · next b =>
    exact fin 45 b rfl (numLen_signed 45 (by decide) b r h) (fun _ => Or.inr trivial) (Or.inl ⟨[.any], by decide⟩)
  · next b =>
    obtain ⟨d, ds, rfl, hd⟩ := numBodyOk_head b h
    refine fin 43 (d :: ds) rfl (numLen_signed 43 (by decide) (d :: ds) r h) (fun _ => Or.inr trivial)
      (Or.inr ⟨.plusEqual, [.any], by decide, ?_⟩)
    intro l c o
    have hd61 : toLower d ≠ 61 := by
      rcases digit_cases d hd with rfl | rfl | rfl | rfl | rfl | rfl | rfl | rfl | rfl | rfl <;> decide
    simp [matchKind, kwPlusEq, lenIdentMatch, hd61]
  · next b hn1 hn2 =>
    obtain ⟨d, ds, rfl, hd⟩ := numBodyOk_head t h
    have hlen := numLen_plain (d :: ds) r h
    by_cases h48 : d = 48
    · subst h48
      refine fin 48 ds rfl hlen (fun _ => Or.inr trivial) (Or.inr ⟨.hex, [.ident], by decide, ?_⟩)
      intro l c o
      cases ds with
      | nil => simp [matchKind, hexLen]
      | cons e es =>
        by_cases he : e = 120
        · subst he
          simp [numBodyOk, List.takeWhile, List.dropWhile, isDigit] at h
        · simp [matchKind, hexLen, he]
    · refine fin d ds rfl hlen (fun _ => Or.inr trivial) (Or.inl ⟨[.ident], ?_⟩)
      rcases digit_cases d hd with rfl | rfl | rfl | rfl | rfl | rfl | rfl | rfl | rfl | rfl
      · exact absurd rfl h48
      all_goals decide

/-! ## hexadecimal numbers -/

def hexOk (t : List B) : Bool :=
  match t with
  | 48 :: 120 :: hs => !hs.isEmpty && hs.all isHexDigit
  | 36 :: hs => !hs.isEmpty && hs.all isHexDigit
  | _ => false

theorem steps_hex (t r : List B) (h : hexOk t = true) : Steps (t ++ 32 :: r) .hex t (32 :: r) := by
  unfold hexOk at h
  split at h
  · next hs =>
    simp only [Bool.and_eq_true, Bool.not_eq_true', List.isEmpty_eq_false_iff] at h
    have hlen : lenWhile isHexDigit (hs ++ 32 :: r) = hs.length := lenWhile_append_stop isHexDigit hs 32 r h.2 (by decide)
    have hpos : (hs.length == 0) = false := by simpa using h.1
    have key := next_of_first ((48 :: 120 :: hs) ++ 32 :: r) 48 _ rfl .hex [.number, .ident] (by decide) (48 :: 120 :: hs).length (by simp)
      (fun l c o => ⟨{ len := (48 :: 120 :: hs).length, line := l, col := c + (48 :: 120 :: hs).length }, by
        simp [matchKind, hexLen, hlen, hpos]; omega, rfl⟩)
    rw [take_len_append, drop_len_append] at key
    exact key
  · next hs =>
    simp only [Bool.and_eq_true, Bool.not_eq_true', List.isEmpty_eq_false_iff] at h
    have hlen : lenWhile isHexDigit (hs ++ 32 :: r) = hs.length := lenWhile_append_stop isHexDigit hs 32 r h.2 (by decide)
    have hpos : (hs.length == 0) = false := by simpa using h.1
    have key := next_of_first ((36 :: hs) ++ 32 :: r) 36 _ rfl .hex [] (by decide) (36 :: hs).length (by simp)
      (fun l c o => ⟨{ len := (36 :: hs).length, line := l, col := c + (36 :: hs).length }, by
        simp [matchKind, hexLen, hlen, hpos]; omega, rfl⟩)
    rw [take_len_append, drop_len_append] at key
    exact key
  · simp at h

/-! ## strings -/

/-- the text between the quotes: every quote doubled -/
def quoteBody (q : B) : List B → List B
  | [] => []
  | c :: cs => if c == q then q :: q :: quoteBody q cs else c :: quoteBody q cs

theorem scanStr_quoted (q : B) (hq : q ≠ 32) (b r : List B) :
    ∀ n l k, (scanStr q (quoteBody q b ++ q :: 32 :: r) n l k).1 = n + (quoteBody q b).length + 1 := by
  induction b with
  | nil =>
    intro n l k
    have : (32 == q) = false := by simpa using fun h => hq h.symm
    simp [quoteBody, scanStr, this]
  | cons x xs ih =>
    intro n l k
    by_cases hx : x = q
    · subst hx
      simp only [quoteBody, beq_self_eq_true, ↓reduceIte, List.cons_append]
      rw [scanStr]
      simp only [beq_self_eq_true, Bool.and_self, ↓reduceIte]
      rw [ih]
      simp only [List.length_cons]; omega
    · have hxq : (x == q) = false := by simpa using hx
      simp only [quoteBody, hxq, Bool.false_eq_true, ↓reduceIte, List.cons_append]
      -- the rest is never empty: at least the closing quote follows
      cases hrest : quoteBody q xs ++ q :: 32 :: r with
      | nil => simp at hrest
      | cons y ys =>
        rw [scanStr]
        simp only [hxq, Bool.false_and, Bool.false_eq_true, ↓reduceIte]
        split
        · rw [← hrest, ih]; simp only [List.length_cons]; omega
        · rw [← hrest, ih]; simp only [List.length_cons]; omega

/-- a quoted string token: opening quote, body with doubled quotes, closing quote (decidable: the token is the
    quotation of what `from_sqf` reads out of it) -/
def strOk (q : B) (t : List B) : Bool := t == q :: (quoteBody q (fromSqf t) ++ [q])

theorem steps_str (q : B) (hq : q = 34 ∨ q = 39) (t r : List B) (h : strOk q t = true) :
    Steps (t ++ 32 :: r) (if q = 34 then .strD else .strS) t (32 :: r) := by
  simp only [strOk, beq_iff_eq] at h
  generalize fromSqf t = b at h
  subst h
  have hq32 : q ≠ 32 := by rcases hq with rfl | rfl <;> decide
  have hscan := scanStr_quoted q hq32 b r
  have hlenT : (q :: (quoteBody q b ++ [q])).length = 1 + (quoteBody q b).length + 1 := by simp; omega
  have hrest : (q :: (quoteBody q b ++ [q])) ++ 32 :: r = q :: (quoteBody q b ++ q :: 32 :: r) := by simp
  rcases hq with rfl | rfl
  · have key := next_of_first ((34 :: (quoteBody 34 b ++ [34])) ++ 32 :: r) 34 _ rfl .strD [] (by decide)
      (34 :: (quoteBody 34 b ++ [34])).length (by simp)
      (fun l c o => ⟨{ len := (scanStr 34 (quoteBody 34 b ++ 34 :: 32 :: r) 1 l (c + 1)).1,
                        line := (scanStr 34 (quoteBody 34 b ++ 34 :: 32 :: r) 1 l (c + 1)).2.1,
                        col := (scanStr 34 (quoteBody 34 b ++ 34 :: 32 :: r) 1 l (c + 1)).2.2 }, by
        simp [matchKind], by rw [hscan, hlenT]⟩)
    rw [take_len_append, drop_len_append] at key
    simpa using key
  · have key := next_of_first ((39 :: (quoteBody 39 b ++ [39])) ++ 32 :: r) 39 _ rfl .strS [] (by decide)
      (39 :: (quoteBody 39 b ++ [39])).length (by simp)
      (fun l c o => ⟨{ len := (scanStr 39 (quoteBody 39 b ++ 39 :: 32 :: r) 1 l (c + 1)).1,
                        line := (scanStr 39 (quoteBody 39 b ++ 39 :: 32 :: r) 1 l (c + 1)).2.1,
                        col := (scanStr 39 (quoteBody 39 b ++ 39 :: 32 :: r) 1 l (c + 1)).2.2 }, by
        simp [matchKind], by rw [hscan, hlenT]⟩)
    rw [take_len_append, drop_len_append] at key
    simpa using key

/-! ## the blank between two tokens -/

def startsNonWs : List B → Bool
  | [] => true
  | c :: _ => !isWs c

theorem steps_ws (r : List B) (hr : startsNonWs r = true) : Steps (32 :: r) .whitespace [32] r := by
  have hscan : ∀ l k, scanWs (32 :: r) 0 l k = (1, l, k + 1) := by
    intro l k
    cases r with
    | nil => simp [scanWs, isWs]
    | cons c cs =>
      have : isWs c = false := by simpa [startsNonWs] using hr
      simp [scanWs, isWs] at *
      simp [this]
  have key := next_of_first (32 :: r) 32 r rfl .whitespace [] (by decide) 1 (by decide)
    (fun l c o => ⟨{ len := 1, line := l, col := c + 1 }, by simp [matchKind, hscan], rfl⟩)
  simpa using key

/-! ## a whole token sequence -/

/-- the tokens the canonical text consists of, in a form the tokenizer reads back as themselves -/
def lexable (t : Tok) : Bool :=
  t.gap == [32] &&
  (match t.kind with
   | .tClass => t.text == kwClass
   | .tDelete => t.text == kwDelete
   | .plusEqual => t.text == kwPlusEq
   | .curlyO => t.text == [123]
   | .curlyC => t.text == [125]
   | .edgeO => t.text == [91]
   | .edgeC => t.text == [93]
   | .colon => t.text == [58]
   | .semicolon => t.text == [59]
   | .comma => t.text == [44]
   | .equal => t.text == [61]
   | .ident => identOk t.text
   | .number => numOk t.text
   | .hex => hexOk t.text
   | .strD => strOk 34 t.text
   | .strS => strOk 39 t.text
   | _ => false)

def renderToks : List Tok → List B
  | [] => []
  | t :: ts => t.text ++ 32 :: renderToks ts

theorem lexable_steps (t : Tok) (h : lexable t = true) (r : List B) : Steps (t.text ++ 32 :: r) t.kind t.text (32 :: r) := by
  obtain ⟨k, tx, g⟩ := t
  simp only [lexable, Bool.and_eq_true, beq_iff_eq] at h
  obtain ⟨_, h⟩ := h
  cases k <;> (try simp only [beq_iff_eq, Bool.false_eq_true] at h)
  · subst h; exact steps_class r
  · subst h; exact steps_delete r
  · subst h; exact steps_curlyO r
  · subst h; exact steps_curlyC r
  · subst h; exact steps_edgeO r
  · subst h; exact steps_edgeC r
  · subst h; exact steps_colon r
  · subst h; exact steps_semicolon r
  · subst h; exact steps_comma r
  · subst h; exact steps_plusEq r
  · subst h; exact steps_equal r
  · simpa using steps_str 34 (Or.inl rfl) tx r h
  · simpa using steps_str 39 (Or.inr rfl) tx r h
  · exact steps_ident tx r h
  · exact steps_number tx r h
  · exact steps_hex tx r h

theorem lexable_head (t : Tok) (h : lexable t = true) : ∃ c cs, t.text = c :: cs ∧ isWs c = false := by
  obtain ⟨k, tx, g⟩ := t
  simp only [lexable, Bool.and_eq_true, beq_iff_eq] at h
  obtain ⟨_, h⟩ := h
  cases k <;> (try simp only [beq_iff_eq, Bool.false_eq_true] at h)
  · subst h; exact ⟨_, _, rfl, by decide⟩
  · subst h; exact ⟨_, _, rfl, by decide⟩
  · subst h; exact ⟨_, _, rfl, by decide⟩
  · subst h; exact ⟨_, _, rfl, by decide⟩
  · subst h; exact ⟨_, _, rfl, by decide⟩
  · subst h; exact ⟨_, _, rfl, by decide⟩
  · subst h; exact ⟨_, _, rfl, by decide⟩
  · subst h; exact ⟨_, _, rfl, by decide⟩
  · subst h; exact ⟨_, _, rfl, by decide⟩
  · subst h; exact ⟨_, _, rfl, by decide⟩
  · subst h; exact ⟨_, _, rfl, by decide⟩
  · simp only [strOk, beq_iff_eq] at h
    exact ⟨34, _, h, by decide⟩
  · simp only [strOk, beq_iff_eq] at h
    exact ⟨39, _, h, by decide⟩
  · cases tx with
    | nil => simp [identOk] at h
    | cons c cs =>
      refine ⟨c, cs, rfl, ?_⟩
      simp only [identOk, Bool.and_eq_true] at h
      have hf := h.1.1.1
      simp only [isWs]
      simp only [Bool.or_eq_true, beq_iff_eq, isAlpha, isLowerAlpha, isUpperAlpha, Bool.and_eq_true, decide_eq_true_eq] at hf
      have h1 : (c == 32) = false := by simp; intro hc; subst hc; simp at hf
      have h2 : (c == 10) = false := by simp; intro hc; subst hc; simp at hf
      have h3 : (c == 13) = false := by simp; intro hc; subst hc; simp at hf
      have h4 : (c == 9) = false := by simp; intro hc; subst hc; simp at hf
      simp [h1, h2, h3, h4]
  · simp only [numOk] at h
    split at h
    · exact ⟨45, _, rfl, by decide⟩
    · exact ⟨43, _, rfl, by decide⟩
    · obtain ⟨d, ds, rfl, hd⟩ := numBodyOk_head _ h
      refine ⟨d, ds, rfl, ?_⟩
      rcases digit_cases d hd with rfl | rfl | rfl | rfl | rfl | rfl | rfl | rfl | rfl | rfl <;> decide
  · simp only [hexOk] at h
    split at h
    · exact ⟨48, _, rfl, by decide⟩
    · exact ⟨36, _, rfl, by decide⟩
    · simp at h

theorem lexable_kind (t : Tok) (h : lexable t = true) :
    ((t.kind == .eof || t.kind == .invalid) = false) ∧ isTrivia t.kind = false := by
  obtain ⟨k, tx, g⟩ := t
  simp only [lexable, Bool.and_eq_true, beq_iff_eq] at h
  obtain ⟨_, h⟩ := h
  cases k <;> (try simp only [beq_iff_eq, Bool.false_eq_true] at h) <;> exact ⟨by simp, by simp [isTrivia]⟩

theorem lexable_gap (t : Tok) (h : lexable t = true) : t.gap = [32] := by
  simp only [lexable, Bool.and_eq_true, beq_iff_eq] at h
  exact h.1

theorem renderToks_starts (ts : List Tok) (h : ∀ t ∈ ts, lexable t = true) : startsNonWs (renderToks ts) = true := by
  cases ts with
  | nil => simp [renderToks, startsNonWs]
  | cons t ts =>
    obtain ⟨c, cs, hc, hw⟩ := lexable_head t (h t List.mem_cons_self)
    simp [renderToks, hc, startsNonWs, hw]

/-- the tokenizer and `attach` on the canonical text of a lexable token sequence give the sequence back -/
theorem attach_render (ts : List Tok) (h : ∀ t ∈ ts, lexable t = true) :
    ∀ f l c o, 2 * ts.length + 1 ≤ f →
      attachR (lexAll f { rest := renderToks ts, line := l, col := c, off := o }) = ([], ts ++ [eofTok]) := by
  induction ts with
  | nil =>
    intro f l c o hf
    obtain ⟨f', rfl⟩ : ∃ f', f = f' + 1 := ⟨f - 1, by omega⟩
    simp [renderToks, lexAll, next, attachR, isTrivia, eofTok]
  | cons t ts ih =>
    intro f l c o hf
    simp only [List.length_cons] at hf
    obtain ⟨f', rfl⟩ : ∃ f', f = f' + 1 := ⟨f - 1, by omega⟩
    obtain ⟨f'', rfl⟩ : ∃ f'', f' = f'' + 1 := ⟨f' - 1, by omega⟩
    have ht := h t List.mem_cons_self
    have hts : ∀ u ∈ ts, lexable u = true := fun u hu => h u (List.mem_cons_of_mem _ hu)
    obtain ⟨hk1, hk2, hk3⟩ := lexable_steps t ht (renderToks ts) l c o
    obtain ⟨hne, htriv⟩ := lexable_kind t ht
    rw [renderToks, lexAll]
    simp only [hk1, hne, Bool.false_eq_true, ↓reduceIte]
    -- the blank
    generalize hst : (next { rest := t.text ++ 32 :: renderToks ts, line := l, col := c, off := o }).2 = st1 at *
    obtain ⟨rest1, l1, c1, o1⟩ := st1
    simp only at hk3
    subst hk3
    obtain ⟨hw1, hw2, hw3⟩ := steps_ws (renderToks ts) (renderToks_starts ts hts) l1 c1 o1
    rw [lexAll]
    have hwne : ((CK.whitespace == CK.eof || CK.whitespace == CK.invalid) = false) := by decide
    simp only [hw1, hwne, Bool.false_eq_true, ↓reduceIte]
    generalize hst2 : (next { rest := 32 :: renderToks ts, line := l1, col := c1, off := o1 }).2 = st2 at *
    obtain ⟨rest2, l2, c2, o2⟩ := st2
    simp only at hw3
    subst hw3
    have hrec := ih hts f'' l2 c2 o2 (by omega)
    rw [attachR, attachR]
    simp only [hk1, htriv, Bool.false_eq_true, ↓reduceIte, hw1, hrec, hk2, hw2]
    have : isTrivia CK.whitespace = true := by decide
    simp only [this, ↓reduceIte, List.append_nil, List.cons_append]
    congr 1
    obtain ⟨k, tx, g⟩ := t
    have hg := lexable_gap _ ht
    simp only at hg
    subst hg
    rfl

theorem renderToks_length (ts : List Tok) (h : ∀ t ∈ ts, lexable t = true) : 2 * ts.length ≤ (renderToks ts).length := by
  induction ts with
  | nil => simp [renderToks]
  | cons t ts ih =>
    obtain ⟨c, cs, hc, _⟩ := lexable_head t (h t List.mem_cons_self)
    have := ih (fun u hu => h u (List.mem_cons_of_mem _ hu))
    simp only [renderToks, List.length_cons, List.length_append, hc]
    omega

/-- **the tokens of the canonical text are the tokens it was written from** -/
theorem tokens_render (ts : List Tok) (h : ∀ t ∈ ts, lexable t = true) : tokens (renderToks ts) = ts ++ [eofTok] := by
  have hlen := renderToks_length ts h
  have := attach_render ts h ((renderToks ts).length + 1) 0 0 0 (by omega)
  simp only [tokens, attach, lexText, LS.init, this]
end Sqf.CfgText
