import SqfModel.CfgText
/-!
# The config grammar reads back the tokens of a tree (helper lemmas for C15)

`toksTop ns` is the token sequence of the canonical text of a tree: every statement followed by one `;`, array
elements separated by `,`.  `pTop` on that sequence yields `ns` again, for every tree, whatever its size and nesting.
-/
namespace Sqf.CfgText
open Sqf Sqf.Cfg

/-- a token of the canonical text: followed by one blank -/
def mk (k : CK) (t : List B) : Tok := { kind := k, text := t, gap := [32] }

def eofTok : Tok := { kind := .eof, text := [], gap := [] }

def strKind (t : List B) : CK := match t with | 39 :: _ => .strS | _ => .strD

mutual
def toksLit : Lit → List Tok
  | .dec t => [mk .number t]
  | .hex t => [mk .hex t]
  | .str t => [mk (strKind t) t]
  | .text t => [mk .ident t]
  | .arr xs => mk .curlyO [123] :: (toksLits xs ++ [mk .curlyC [125]])
def toksLits : List Lit → List Tok
  | [] => []
  | x :: xs => toksLit x ++ toksMore xs
def toksMore : List Lit → List Tok
  | [] => []
  | x :: xs => mk .comma [44] :: (toksLit x ++ toksMore xs)
end

mutual
def sizeLit : Lit → Nat
  | .dec _ => 1
  | .hex _ => 1
  | .str _ => 1
  | .text _ => 1
  | .arr xs => 1 + sizeLits xs
def sizeLits : List Lit → Nat
  | [] => 0
  | x :: xs => 2 + sizeLit x + sizeLits xs
end

def isArrLit : Lit → Bool
  | .arr _ => true
  | _ => false

mutual
def toksNode : Node → List Tok
  | .classDef n => [mk .tClass kwClass, mk .ident n]
  | .classDefExt n b => [mk .tClass kwClass, mk .ident n, mk .colon [58], mk .ident b]
  | .cls n body => mk .tClass kwClass :: mk .ident n :: mk .curlyO [123] :: (toksBody body ++ [mk .curlyC [125]])
  | .clsExt n b body =>
    mk .tClass kwClass :: mk .ident n :: mk .colon [58] :: mk .ident b :: mk .curlyO [123] :: (toksBody body ++ [mk .curlyC [125]])
  | .del n => [mk .tDelete kwDelete, mk .ident n]
  | .field n v => mk .ident n :: mk .equal [61] :: toksLit v
  | .fieldArr n v => mk .ident n :: mk .edgeO [91] :: mk .edgeC [93] :: mk .equal [61] :: toksLit v
  | .fieldArrAppend n v => mk .ident n :: mk .edgeO [91] :: mk .edgeC [93] :: mk .plusEqual kwPlusEq :: toksLit v
def toksBody : List Node → List Tok
  | [] => []
  | x :: xs => toksNode x ++ mk .semicolon [59] :: toksBody xs
end

mutual
def sizeNode : Node → Nat
  | .classDef _ => 1
  | .classDefExt _ _ => 1
  | .cls _ body => 1 + sizeNodes body
  | .clsExt _ _ body => 1 + sizeNodes body
  | .del _ => 1
  | .field _ _ => 1
  | .fieldArr _ v => 1 + sizeLit v
  | .fieldArrAppend _ v => 1 + sizeLit v
def sizeNodes : List Node → Nat
  | [] => 1
  | x :: xs => 2 + sizeNode x + sizeNodes xs
end

/-! the shapes the grammar produces: a plain field holds a scalar, an array field an array; `top`: no fields -/
mutual
def shapeNode : Bool → Node → Bool
  | _, .classDef _ => true
  | _, .classDefExt _ _ => true
  | _, .cls _ body => shapeNodes body
  | _, .clsExt _ _ body => shapeNodes body
  | _, .del _ => true
  | top, .field _ v => !top && !isArrLit v
  | top, .fieldArr _ v => !top && isArrLit v
  | top, .fieldArrAppend _ v => !top && isArrLit v
def shapeNodes : List Node → Bool
  | [] => true
  | x :: xs => shapeNode false x && shapeNodes xs
end

def shapeTop : List Node → Bool
  | [] => true
  | x :: xs => shapeNode true x && shapeTop xs

def toksTop (ns : List Node) : List Tok := toksBody ns ++ [eofTok]

/-! ## arrays -/

/-- the next token, if any, cannot continue an unquoted array element -/
def stopsAnyp : List Tok → Bool
  | [] => true
  | t :: _ => !isAnyp t.kind

theorem strKind_cases (t : List B) : strKind t = .strS ∨ strKind t = .strD := by
  unfold strKind; split <;> simp

theorem pElem_single (f : Nat) (t : Tok) (R : List Tok) (hk : t.kind ≠ .curlyO) (ha : isAnyp t.kind = true)
    (hR : stopsAnyp R = true) :
    pElem (f + 1) (t :: R) = some (litOfRun [t], R) := by
  have h1 : (t.kind == CK.curlyO) = false := by simpa using hk
  simp only [pElem, h1, Bool.false_eq_true, ↓reduceIte]
  have htw : (t :: R).takeWhile (fun x => isAnyp x.kind) = [t] := by
    cases R with
    | nil => simp [List.takeWhile, ha]
    | cons r rs =>
      have : isAnyp r.kind = false := by simpa [stopsAnyp] using hR
      simp [List.takeWhile, ha, this]
  have hdw : (t :: R).dropWhile (fun x => isAnyp x.kind) = R := by
    cases R with
    | nil => simp [List.dropWhile, ha]
    | cons r rs =>
      have : isAnyp r.kind = false := by simpa [stopsAnyp] using hR
      simp [List.dropWhile, ha, this]
  rw [htw, hdw]
  simp

theorem stops_comma (R : List Tok) : stopsAnyp (mk .comma [44] :: R) = true := by
  simp [stopsAnyp, mk, isAnyp]
theorem stops_curlyC (R : List Tok) : stopsAnyp (mk .curlyC [125] :: R) = true := by
  simp [stopsAnyp, mk, isAnyp]

theorem toksMore_head (xs : List Lit) (R : List Tok) :
    stopsAnyp (toksMore xs ++ mk .curlyC [125] :: R) = true := by
  cases xs with
  | nil => simp [toksMore, stops_curlyC]
  | cons x xs => simp [toksMore, stopsAnyp, mk, isAnyp]

theorem toksLit_head (l : Lit) : ∃ u us, toksLit l = u :: us ∧ u.kind ≠ .curlyC ∧ u.kind ≠ .comma := by
  cases l with
  | dec t => exact ⟨_, _, by rw [toksLit], by simp [mk], by simp [mk]⟩
  | hex t => exact ⟨_, _, by rw [toksLit], by simp [mk], by simp [mk]⟩
  | str t => exact ⟨_, _, by rw [toksLit], by rcases strKind_cases t with h | h <;> simp [mk, h],
      by rcases strKind_cases t with h | h <;> simp [mk, h]⟩
  | text t => exact ⟨_, _, by rw [toksLit], by simp [mk], by simp [mk]⟩
  | arr xs => exact ⟨_, _, by rw [toksLit], by simp [mk], by simp [mk]⟩

/-- what `pElem` has to deliver for one literal -/
def ElemOk (l : Lit) : Prop :=
  ∀ f R, sizeLit l ≤ f → (isArrLit l = true ∨ stopsAnyp R = true) → pElem (f + 1) (toksLit l ++ R) = some (l, R)

/-- the elements of an array behind the first one -/
theorem pElems_more (xs : List Lit) (hxs : ∀ y ∈ xs, ElemOk y) :
    ∀ (x : Lit), ElemOk x → ∀ f R acc, sizeLits (x :: xs) ≤ f →
      pElems f (toksLit x ++ (toksMore xs ++ mk .curlyC [125] :: R)) acc = some (acc ++ x :: xs, R) := by
  induction xs with
  | nil =>
    intro x hx f R acc hf
    rw [sizeLits, sizeLits] at hf
    obtain ⟨f', rfl⟩ : ∃ f', f = f' + 1 := ⟨f - 1, by omega⟩
    obtain ⟨g, rfl⟩ : ∃ g, f' = g + 1 := ⟨f' - 1, by omega⟩
    rw [pElems]
    simp only [toksMore, List.nil_append]
    rw [hx g _ (by omega) (Or.inr (stops_curlyC R))]
    simp [mk]
  | cons y ys ih =>
    intro x hx f R acc hf
    rw [sizeLits] at hf
    obtain ⟨f', rfl⟩ : ∃ f', f = f' + 1 := ⟨f - 1, by omega⟩
    obtain ⟨g, rfl⟩ : ∃ g, f' = g + 1 := ⟨f' - 1, by omega⟩
    rw [pElems]
    rw [toksMore]
    simp only [List.cons_append, List.append_assoc]
    rw [hx g _ (by omega) (Or.inr (stops_comma _))]
    simp only [mk, beq_self_eq_true, ↓reduceIte]
    have := ih (fun z hz => hxs z (List.mem_cons_of_mem _ hz)) y (hxs y (List.mem_cons_self)) (g + 1) R (acc ++ [x]) (by omega)
    simp only [mk] at this
    rw [this]
    simp

theorem elemOk_all : (∀ l : Lit, ElemOk l) := by
  intro l
  apply sizeLit.induct (motive_1 := fun l => ElemOk l) (motive_2 := fun xs => ∀ y ∈ xs, ElemOk y)
  · intro t f R _ h
    rw [toksLit]
    have hs : stopsAnyp R = true := by simpa [isArrLit] using h
    simpa [litOfRun, mk] using pElem_single f (mk .number t) R (by simp [mk]) (by simp [mk, isAnyp]) hs
  · intro t f R _ h
    rw [toksLit]
    have hs : stopsAnyp R = true := by simpa [isArrLit] using h
    simpa [litOfRun, mk] using pElem_single f (mk .hex t) R (by simp [mk]) (by simp [mk, isAnyp]) hs
  · intro t f R _ h
    rw [toksLit]
    have hs : stopsAnyp R = true := by simpa [isArrLit] using h
    rcases strKind_cases t with hk | hk
    · simpa [litOfRun, mk, hk] using pElem_single f (mk (strKind t) t) R (by simp [mk, hk]) (by simp [mk, isAnyp, hk]) hs
    · simpa [litOfRun, mk, hk] using pElem_single f (mk (strKind t) t) R (by simp [mk, hk]) (by simp [mk, isAnyp, hk]) hs
  · intro t f R _ h
    rw [toksLit]
    have hs : stopsAnyp R = true := by simpa [isArrLit] using h
    simpa [litOfRun, mk] using pElem_single f (mk .ident t) R (by simp [mk]) (by simp [mk, isAnyp]) hs
  · intro xs ih f R hf _
    rw [sizeLit] at hf
    rw [toksLit]
    cases xs with
    | nil =>
      simp only [toksLits, List.nil_append, List.cons_append]
      rw [pElem]
      simp [mk]
    | cons x xs =>
      obtain ⟨u, us, hu, hc, _⟩ := toksLit_head x
      have hm := pElems_more xs (fun y hy => ih y (List.mem_cons_of_mem _ hy)) x (ih x List.mem_cons_self) f R [] (by omega)
      simp only [toksLits, List.cons_append, List.append_assoc, List.singleton_append, List.nil_append]
      rw [hu] at hm ⊢
      simp only [List.cons_append] at hm ⊢
      rw [pElem]
      have h1 : (u.kind == CK.curlyC) = false := by simpa using hc
      simp only [mk, beq_self_eq_true, ↓reduceIte, h1, Bool.false_eq_true]
      simp only [mk] at hm
      rw [hm]
      simp
  · intro y hy
    cases hy
  · intro x xs ihx ihxs y hy
    rcases List.mem_cons.mp hy with rfl | h
    · exact ihx
    · exact ihxs y h

theorem pArray_toks (xs : List Lit) (f : Nat) (R : List Tok) (hf : sizeLit (.arr xs) ≤ f) :
    pArray (f + 1) (toksLit (.arr xs) ++ R) = some (.arr xs, R) := by
  have h := elemOk_all (.arr xs) f R hf (Or.inl rfl)
  rw [toksLit] at h ⊢
  simp only [List.cons_append] at h ⊢
  rw [pArray]
  simpa [mk] using h

/-! ## statements -/

def semi : Tok := mk .semicolon [59]

theorem toksLit_scalar (v : Lit) (h : isArrLit v = false) :
    ∃ t, toksLit v = [t] ∧ isAnyval t.kind = true ∧ litOfRun [t] = v := by
  cases v with
  | dec t => exact ⟨_, by rw [toksLit], by simp [mk, isAnyval, isAnyp], by simp [litOfRun, mk]⟩
  | hex t => exact ⟨_, by rw [toksLit], by simp [mk, isAnyval, isAnyp], by simp [litOfRun, mk]⟩
  | str t =>
    refine ⟨_, by rw [toksLit], ?_, ?_⟩
    · rcases strKind_cases t with hk | hk <;> simp [mk, isAnyval, isAnyp, hk]
    · rcases strKind_cases t with hk | hk <;> simp [litOfRun, mk, hk]
  | text t => exact ⟨_, by rw [toksLit], by simp [mk, isAnyval, isAnyp], by simp [litOfRun, mk]⟩
  | arr xs => simp [isArrLit] at h

theorem toksNode_head (x : Node) :
    ∃ u us, toksNode x = u :: us ∧ u.kind ≠ .semicolon ∧ u.kind ≠ .curlyC ∧ u.kind ≠ .eof := by
  cases x <;> exact ⟨_, _, by rw [toksNode], by simp [mk], by simp [mk], by simp [mk]⟩

/-- what `pStmt` has to deliver for one statement followed by its `;` -/
def StmtOk (x : Node) : Prop :=
  ∀ top f R inBody, shapeNode top x = true → (top = false → inBody = true) → sizeNode x ≤ f →
    pStmt (f + 1) inBody (toksNode x ++ semi :: R) = some (x, semi :: R)

theorem skipSeps_cons (u : Tok) (us : List Tok) (h : u.kind ≠ .semicolon) : skipSeps (u :: us) = u :: us := by
  rw [skipSeps]
  have : (u.kind == CK.semicolon) = false := by simpa using h
  simp [this]

theorem pMore_toks (xs : List Node) (hxs : ∀ y ∈ xs, StmtOk y) (hs : shapeNodes xs = true) :
    ∀ f R acc, sizeNodes xs ≤ f →
      pMore f (semi :: (toksBody xs ++ mk .curlyC [125] :: R)) acc = some (acc ++ xs, R) := by
  induction xs with
  | nil =>
    intro f R acc hf
    rw [sizeNodes] at hf
    obtain ⟨f', rfl⟩ : ∃ f', f = f' + 1 := ⟨f - 1, by omega⟩
    simp [pMore, semi, mk, toksBody, skipSeps]
  | cons x xs ih =>
    intro f R acc hf
    rw [sizeNodes] at hf
    rw [shapeNodes, Bool.and_eq_true] at hs
    obtain ⟨f', rfl⟩ : ∃ f', f = f' + 1 := ⟨f - 1, by omega⟩
    obtain ⟨g, rfl⟩ : ∃ g, f' = g + 1 := ⟨f' - 1, by omega⟩
    obtain ⟨u, us, hu, h1, h2, _⟩ := toksNode_head x
    have hst := hxs x List.mem_cons_self false g (toksBody xs ++ mk .curlyC [125] :: R) true hs.1 (fun _ => rfl) (by omega)
    have hm := ih (fun y hy => hxs y (List.mem_cons_of_mem _ hy)) hs.2 (g + 1) R (acc ++ [x]) (by omega)
    rw [toksBody]
    rw [hu] at hst ⊢
    simp only [List.cons_append, List.append_assoc] at hst ⊢
    rw [pMore]
    have e1 : ((semi).kind == CK.curlyC) = false := by simp [semi, mk]
    have e2 : ((semi).kind == CK.semicolon) = true := by simp [semi, mk]
    have e3 : (u.kind == CK.curlyC) = false := by simpa using h2
    simp only [e1, e2, Bool.false_eq_true, ↓reduceIte, skipSeps_cons u _ h1, e3]
    rw [show mk CK.semicolon [59] = semi from rfl, hst]
    simp only
    rw [hm]
    simp

theorem pBody_toks (xs : List Node) (hxs : ∀ y ∈ xs, StmtOk y) (hs : shapeNodes xs = true) :
    ∀ f R, sizeNodes xs ≤ f → pBody f (toksBody xs ++ mk .curlyC [125] :: R) = some (xs, R) := by
  cases xs with
  | nil =>
    intro f R hf
    rw [sizeNodes] at hf
    obtain ⟨f', rfl⟩ : ∃ f', f = f' + 1 := ⟨f - 1, by omega⟩
    simp [pBody, toksBody, mk]
  | cons x xs =>
    intro f R hf
    rw [sizeNodes] at hf
    rw [shapeNodes, Bool.and_eq_true] at hs
    obtain ⟨f', rfl⟩ : ∃ f', f = f' + 1 := ⟨f - 1, by omega⟩
    obtain ⟨g, rfl⟩ : ∃ g, f' = g + 1 := ⟨f' - 1, by omega⟩
    obtain ⟨u, us, hu, _, h2, _⟩ := toksNode_head x
    have hst := hxs x List.mem_cons_self false g (toksBody xs ++ mk .curlyC [125] :: R) true hs.1 (fun _ => rfl) (by omega)
    have hm := pMore_toks xs (fun y hy => hxs y (List.mem_cons_of_mem _ hy)) hs.2 (g + 1) R [x] (by omega)
    rw [toksBody]
    rw [hu] at hst ⊢
    simp only [List.cons_append, List.append_assoc] at hst ⊢
    rw [pBody]
    have e3 : (u.kind == CK.curlyC) = false := by simpa using h2
    simp only [e3, Bool.false_eq_true, ↓reduceIte]
    rw [show mk CK.semicolon [59] = semi from rfl, hst]
    simp only
    rw [hm]
    simp

theorem stmtOk_all : ∀ x : Node, StmtOk x := by
  intro x
  apply sizeNode.induct (motive_1 := fun x => StmtOk x) (motive_2 := fun xs => ∀ y ∈ xs, StmtOk y)
  · intro n top f R inBody _ _ _
    simp [toksNode, pStmt, mk, semi]
  · intro n b top f R inBody _ _ _
    simp [toksNode, pStmt, mk, semi]
  · intro n body ih top f R inBody hs _ hf
    rw [sizeNode] at hf
    rw [shapeNode] at hs
    have hb := pBody_toks body ih hs f (semi :: R) (by omega)
    simp only [toksNode, List.cons_append, List.append_assoc, List.singleton_append]
    simp only [mk] at hb ⊢
    simp [pStmt, hb]
  · intro n b body ih top f R inBody hs _ hf
    rw [sizeNode] at hf
    rw [shapeNode] at hs
    have hb := pBody_toks body ih hs f (semi :: R) (by omega)
    simp only [toksNode, List.cons_append, List.append_assoc, List.singleton_append]
    simp only [mk] at hb ⊢
    simp [pStmt, hb]
  · intro n top f R inBody _ _ _
    simp [toksNode, pStmt, mk, semi]
  · intro n v top f R inBody hs hin _
    rw [shapeNode] at hs
    have htop : top = false := by cases top <;> simp_all
    have hv : isArrLit v = false := by cases top <;> simp_all
    have hib : inBody = true := hin htop
    obtain ⟨t, ht, hany, hlit⟩ := toksLit_scalar v hv
    simp only [toksNode, ht, List.cons_append, List.nil_append]
    have hsemi : isAnyval semi.kind = false := by simp [semi, mk, isAnyval, isAnyp]
    have htw : (t :: semi :: R).takeWhile (fun x => isAnyval x.kind) = [t] := by
      rw [List.takeWhile_cons_of_pos (by exact hany), List.takeWhile_cons_of_neg (by simp [hsemi])]
    have hdw : (t :: semi :: R).dropWhile (fun x => isAnyval x.kind) = semi :: R := by
      rw [List.dropWhile_cons_of_pos (by exact hany), List.dropWhile_cons_of_neg (by simp [hsemi])]
    simp only [mk, hib]
    simp [pStmt, htw, hdw, hlit]
  · intro n v top f R inBody hs hin hf
    rw [shapeNode] at hs
    rw [sizeNode] at hf
    have htop : top = false := by cases top <;> simp_all
    have hv : isArrLit v = true := by cases top <;> simp_all
    have hib : inBody = true := hin htop
    cases v with
    | arr xs =>
      obtain ⟨g, rfl⟩ : ∃ g, f = g + 1 := ⟨f - 1, by omega⟩
      have ha := pArray_toks xs g (semi :: R) (by omega)
      simp only [toksNode, List.cons_append]
      simp only [mk] at ha ⊢
      simp [pStmt, hib, ha]
    | _ => simp [isArrLit] at hv
  · intro n v top f R inBody hs hin hf
    rw [shapeNode] at hs
    rw [sizeNode] at hf
    have htop : top = false := by cases top <;> simp_all
    have hv : isArrLit v = true := by cases top <;> simp_all
    have hib : inBody = true := hin htop
    cases v with
    | arr xs =>
      obtain ⟨g, rfl⟩ : ∃ g, f = g + 1 := ⟨f - 1, by omega⟩
      have ha := pArray_toks xs g (semi :: R) (by omega)
      simp only [toksNode, List.cons_append]
      simp only [mk] at ha ⊢
      simp [pStmt, hib, ha]
    | _ => simp [isArrLit] at hv
  · intro y hy
    cases hy
  · intro x xs ihx ihxs y hy
    rcases List.mem_cons.mp hy with rfl | h
    · exact ihx
    · exact ihxs y h

/-! ## the whole text -/

theorem shapeTop_shape (x : Node) (h : shapeNode true x = true) : shapeNode false x = true := by
  cases x <;> simp_all [shapeNode]

theorem pTopMore_toks (xs : List Node) (hs : shapeTop xs = true) :
    ∀ f acc, sizeNodes xs ≤ f → pTopMore f (semi :: (toksBody xs ++ [eofTok])) acc = some (acc ++ xs) := by
  induction xs with
  | nil =>
    intro f acc hf
    rw [sizeNodes] at hf
    obtain ⟨f', rfl⟩ : ∃ f', f = f' + 1 := ⟨f - 1, by omega⟩
    simp [pTopMore, semi, mk, toksBody, skipSeps, eofTok]
  | cons x xs ih =>
    intro f acc hf
    rw [sizeNodes] at hf
    rw [shapeTop, Bool.and_eq_true] at hs
    obtain ⟨f', rfl⟩ : ∃ f', f = f' + 1 := ⟨f - 1, by omega⟩
    obtain ⟨g, rfl⟩ : ∃ g, f' = g + 1 := ⟨f' - 1, by omega⟩
    obtain ⟨u, us, hu, h1, _, h3⟩ := toksNode_head x
    have hst := stmtOk_all x true g (toksBody xs ++ [eofTok]) false hs.1 (by simp) (by omega)
    have hm := ih hs.2 (g + 1) (acc ++ [x]) (by omega)
    rw [toksBody]
    rw [hu] at hst ⊢
    simp only [List.cons_append, List.append_assoc] at hst ⊢
    rw [pTopMore]
    have e1 : ((semi).kind == CK.eof) = false := by simp [semi, mk]
    have e2 : ((semi).kind == CK.semicolon) = true := by simp [semi, mk]
    have e3 : (u.kind == CK.eof) = false := by simpa using h3
    simp only [e1, e2, Bool.false_eq_true, ↓reduceIte, skipSeps_cons u _ h1, e3]
    rw [show mk CK.semicolon [59] = semi from rfl, hst]
    simp only
    rw [hm]
    simp

/-- `pTop` reads the tokens of a tree back, given enough fuel -/
theorem pTop_toks (ns : List Node) (hs : shapeTop ns = true) (f : Nat) (hf : sizeNodes ns ≤ f) :
    pTop f (toksTop ns) = some ns := by
  cases ns with
  | nil => simp [pTop, toksTop, toksBody, skipSeps, eofTok]
  | cons x xs =>
    rw [sizeNodes] at hf
    rw [shapeTop, Bool.and_eq_true] at hs
    obtain ⟨f', rfl⟩ : ∃ f', f = f' + 1 := ⟨f - 1, by omega⟩
    obtain ⟨u, us, hu, h1, _, h3⟩ := toksNode_head x
    have hst := stmtOk_all x true f' (toksBody xs ++ [eofTok]) false hs.1 (by simp) (by omega)
    have hm := pTopMore_toks xs hs.2 (f' + 1) [x] (by omega)
    rw [toksTop, toksBody]
    rw [hu] at hst ⊢
    simp only [List.cons_append, List.append_assoc] at hst ⊢
    rw [pTop]
    have e3 : (u.kind == CK.eof) = false := by simpa using h3
    simp only [skipSeps_cons u _ h1, e3, Bool.false_eq_true, ↓reduceIte]
    rw [show mk CK.semicolon [59] = semi from rfl, hst]
    simp only
    rw [hm]
    simp

/-! ## the fuel `parseText` provides is enough: sizes against token counts -/

theorem sizeLit_le : (∀ l : Lit, sizeLit l ≤ 2 * (toksLit l).length) := by
  intro l
  apply sizeLit.induct (motive_1 := fun l => sizeLit l ≤ 2 * (toksLit l).length)
    (motive_2 := fun xs => sizeLits xs ≤ 2 * (toksLits xs).length + 2 ∧ sizeLits xs ≤ 2 * (toksMore xs).length)
  · intro t; simp [sizeLit, toksLit]
  · intro t; simp [sizeLit, toksLit]
  · intro t; simp [sizeLit, toksLit]
  · intro t; simp [sizeLit, toksLit]
  · intro xs ih
    rw [sizeLit, toksLit]
    simp only [List.length_cons, List.length_append, List.length_nil]
    omega
  · simp [sizeLits, toksLits, toksMore]
  · intro x xs ihx ihxs
    rw [sizeLits, toksLits, toksMore]
    simp only [List.length_cons, List.length_append]
    omega

theorem sizeNode_le : (∀ x : Node, sizeNode x ≤ 2 * (toksNode x).length) := by
  intro x
  apply sizeNode.induct (motive_1 := fun x => sizeNode x ≤ 2 * (toksNode x).length)
    (motive_2 := fun xs => sizeNodes xs ≤ 2 * (toksBody xs).length + 1)
  · intro n; simp [sizeNode, toksNode]
  · intro n b; simp [sizeNode, toksNode]
  · intro n body ih
    rw [sizeNode, toksNode]
    simp only [List.length_cons, List.length_append, List.length_nil]
    omega
  · intro n b body ih
    rw [sizeNode, toksNode]
    simp only [List.length_cons, List.length_append, List.length_nil]
    omega
  · intro n; simp [sizeNode, toksNode]
  · intro n v; simp only [sizeNode, toksNode, List.length_cons]; omega
  · intro n v
    have := sizeLit_le v
    rw [sizeNode, toksNode]
    simp only [List.length_cons]
    omega
  · intro n v
    have := sizeLit_le v
    rw [sizeNode, toksNode]
    simp only [List.length_cons]
    omega
  · simp [sizeNodes, toksBody]
  · intro x xs ihx ihxs
    rw [sizeNodes, toksBody]
    simp only [List.length_cons, List.length_append]
    omega

theorem sizeNodes_le (ns : List Node) : sizeNodes ns ≤ 2 * (toksTop ns).length + 4 := by
  have : sizeNodes ns ≤ 2 * (toksBody ns).length + 1 := by
    induction ns with
    | nil => simp [sizeNodes, toksBody]
    | cons x xs ih =>
      have := sizeNode_le x
      rw [sizeNodes, toksBody]
      simp only [List.length_cons, List.length_append]
      omega
  rw [toksTop]
  simp only [List.length_append, List.length_cons, List.length_nil]
  omega

end Sqf.CfgText
