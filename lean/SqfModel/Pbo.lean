import SqfModel.Basic
/-!
# Model of the PBO reader (`src/rvutils/pbofile.hpp`, `pbofile::open` and the readers)

A PBO file: one *version header* (an entry header with an empty name and method `Vers`), the property
list (`key\0value\0` pairs, ended by an empty string), the entry headers (`name\0` followed by a packed
20-byte record: method, original size, reserved, timestamp, size — little endian), ended by a header
with an empty name, then the data blocks in header order. Anything behind the last data block (the
checksum) is ignored.

`parse` is total: every byte string either yields an archive or `none` (rejected); it never looks at a
position outside the string. Entries whose data block does not lie completely inside the file are not
exposed.
-/
namespace Sqf.Pbo
open Sqf

/-- packing method as stored (four bytes, little endian) -/
abbrev Method := Nat

def methodVers : Method := 0x56657273
def methodNone : Method := 0

structure Entry where
  name : List B
  method : Method
  origSize : Nat
  reserved : Nat
  timestamp : Nat
  size : Nat
  /-- offset of the data block in the file -/
  dataStart : Nat
  deriving Repr, DecidableEq

structure Archive where
  props : List (List B × List B)
  entries : List Entry
  deriving Repr, DecidableEq

/-- `read_string`: the bytes up to the next NUL and the position behind it; `none` when there is no NUL
    in the rest of the file -/
def readString : List B → Option (List B × List B)
  | [] => none
  | c :: rest =>
    if c = 0 then some ([], rest)
    else match readString rest with
      | some (s, r) => some (c :: s, r)
      | none => none

/-- four bytes, little endian -/
def readU32 : List B → Option (Nat × List B)
  | a :: b :: c :: d :: rest => some (a + 256 * b + 65536 * c + 16777216 * d, rest)
  | _ => none

/-- the packed 20-byte record behind a name -/
structure Rec where
  method : Nat
  origSize : Nat
  reserved : Nat
  timestamp : Nat
  size : Nat

def readRec (bs : List B) : Option (Rec × List B) :=
  match readU32 bs with
  | none => none
  | some (m, r1) =>
    match readU32 r1 with
    | none => none
    | some (o, r2) =>
      match readU32 r2 with
      | none => none
      | some (rv, r3) =>
        match readU32 r3 with
        | none => none
        | some (t, r4) =>
          match readU32 r4 with
          | none => none
          | some (sz, r5) => some ({ method := m, origSize := o, reserved := rv, timestamp := t, size := sz }, r5)

/-- `read_header`: name and record -/
def readHeader (bs : List B) : Option (List B × Rec × List B) :=
  match readString bs with
  | none => none
  | some (name, r) =>
    match readRec r with
    | none => none
    | some (rec, r') => some (name, rec, r')

/-- the property list: pairs until the empty key, which is consumed -/
def readProps : Nat → List B → Option (List (List B × List B) × List B)
  | 0, _ => none
  | fuel + 1, bs =>
    match readString bs with
    | none => none
    | some (key, r) =>
      if key.isEmpty then some ([], r)
      else match readString r with
        | none => none
        | some (value, r') =>
          match readProps fuel r' with
          | none => none
          | some (ps, r'') => some ((key, value) :: ps, r'')

/-- the entry headers: until the header with the empty name, which is consumed -/
def readEntries : Nat → List B → Option (List (List B × Rec) × List B)
  | 0, _ => none
  | fuel + 1, bs =>
    match readHeader bs with
    | none => none
    | some (name, rec, r) =>
      if name.isEmpty then some ([], r)
      else match readEntries fuel r with
        | none => none
        | some (es, r') => some ((name, rec) :: es, r')

/-- data offsets accumulate from the end of the header table -/
def layout : Nat → List (List B × Rec) → List Entry
  | _, [] => []
  | off, (name, rec) :: rest =>
    { name := name, method := rec.method, origSize := rec.origSize, reserved := rec.reserved, timestamp := rec.timestamp,
      size := rec.size, dataStart := off } :: layout (off + rec.size) rest

/-- `pbofile::open`: version header, properties, entry headers, offsets; entries whose data block is
    not completely inside the file are dropped -/
def parse (file : List B) : Option Archive :=
  match readHeader file with
  | none => none
  | some (_, _, r0) =>
    match readProps (file.length + 1) r0 with
    | none => none
    | some (props, r1) =>
      match readEntries (file.length + 1) r1 with
      | none => none
      | some (hs, r2) =>
        let dataOff := file.length - r2.length
        some { props := props, entries := (layout dataOff hs).filter (fun e => e.dataStart + e.size ≤ file.length) }

/-- the bytes of an entry as a reader returns them -/
def entryBytes (file : List B) (e : Entry) : List B := (file.drop e.dataStart).take e.size

/-- `pbofile::attribute(key)` -/
def Archive.attribute (a : Archive) (key : List B) : Option (List B) :=
  (a.props.find? (fun p => p.1 = key)).map (·.2)

/-- `pbofile::read(name, reader)` followed by reading the whole block -/
def Archive.read (a : Archive) (file : List B) (name : List B) : Option (List B) :=
  (a.entries.find? (fun e => e.name = name)).map (entryBytes file)

/-! ## The packer (the independent writer the round trip is stated against) -/

def u32 (n : Nat) : List B := [n % 256, n / 256 % 256, n / 65536 % 256, n / 16777216 % 256]

def cstr (s : List B) : List B := s ++ [0]

def packRec (m o rv t sz : Nat) : List B := u32 m ++ u32 o ++ u32 rv ++ u32 t ++ u32 sz

/-- a file to be packed: name, method, timestamp, content -/
structure Item where
  name : List B
  method : Nat := 0
  timestamp : Nat := 0
  content : List B

def packProps : List (List B × List B) → List B
  | [] => [0]
  | (k, v) :: rest => cstr k ++ cstr v ++ packProps rest

def packHeaders : List Item → List B
  | [] => cstr [] ++ packRec 0 0 0 0 0
  | it :: rest => cstr it.name ++ packRec it.method it.content.length 0 it.timestamp it.content.length ++ packHeaders rest

def packData : List Item → List B
  | [] => []
  | it :: rest => it.content ++ packData rest

def pack (props : List (List B × List B)) (items : List Item) (trailer : List B := []) : List B :=
  cstr [] ++ packRec methodVers 0 0 0 0 ++ packProps props ++ packHeaders items ++ packData items ++ trailer

end Sqf.Pbo
