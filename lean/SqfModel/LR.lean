import SqfModel.Basic
/-!
# The LALR(1) driver of Bison's `lalr1.cc` skeleton over translated tables

`translators/lalr.py` reads the parser tables (`yypact_`, `yydefact_`, `yypgoto_`, `yydefgoto_`, `yytable_`,
`yycheck_`, `yyr1_`, `yyr2_`, the constants) and the semantic action of every rule out of the checked-in
`parser.tab.cc` of the SQF and of the config grammar — the files that are actually compiled — on every run
(`Generated/SqfGrammar.lean`, `Generated/CfgGrammar.lean`).  `run` below is the skeleton's `parse()` loop: state
stack, default reductions, look-ahead on demand, `yy_lr_goto_state_`, no error recovery (neither grammar has an
`error` production, so the first syntax error ends the parse).

The semantic values are generic trees (`LTree`): a token, or an `astnode` with kind number, token text and
children.  The actions of both grammars are of five shapes (move a child up; build a node from a kind, an optional
token and appended children; append the children of a child; the config grammar's "a single non-ANY child stands for
the list"; write the result) — the translator refuses anything else (`Act.unknown` makes every parse fail, which the
correspondence check reports).
-/
namespace Sqf.LR
open Sqf

structure Tables where
  pact : Array Int
  defact : Array Int
  pgoto : Array Int
  defgoto : Array Int
  table : Array Int
  check : Array Int
  r1 : Array Int
  r2 : Array Int
  pactNinf : Int
  tableNinf : Int
  last : Int
  final : Int
  ntokens : Int

/-- semantic value: a token (symbol number, text, source offset) or an `astnode` -/
inductive LTree where
  | none
  | tok (sym : Nat) (text : List B) (off : Nat)
  | node (kind : Int) (text : List B) (off : Nat) (children : List LTree)
deriving Repr, Inhabited

def LTree.children : LTree → List LTree
  | .node _ _ _ cs => cs
  | _ => []

def LTree.kind : LTree → Int
  | .node k _ _ _ => k
  | _ => -1

/-- text and offset of the token a value carries (`$i` used as the `token` argument of `astnode{kind, $i}`) -/
def LTree.tokText : LTree → List B × Nat
  | .tok _ t o => (t, o)
  | .node _ t o _ => (t, o)
  | .none => ([], 0)

/-- what an action appends to the node it builds; `k` counts from the top of the stack (`yystack_[k]`) -/
inductive Op where
  | append (k : Nat)                -- `.append($i)`
  | appendChildren (k : Nat)        -- `.append_children($i)`
  | appendUnwrapSingle (k : Nat) (anyKind : Int)
      -- config: `if ($i.children.size() == 1 && $i.children[0].kind != ANY) append($i.children[0]) else append($i)`
deriving Repr, DecidableEq

inductive Act where
  | noValue                                         -- no action code
  | move (k : Nat)                                  -- `$$ = std::move($i)`
  | moveUnwrapSingle (k : Nat) (anyKind : Int)      -- config `arrayvalue: anyarray`
  | mk (kind : Int) (tokFrom : Option Nat) (ops : List Op)   -- `$$ = astnode{ kind[, $j] }` and appends
  | moveAppend (k : Nat) (ops : List Op)            -- `$$ = std::move($i); $$.append(...)`
  | result (ops : List Op)                          -- `result = astnode{}; result.append(...)`
  | unknown
deriving Repr, DecidableEq

structure Grammar where
  t : Tables
  acts : Array Act
  /-- kind number of a node without kind (`astkind::NA`) -/
  naKind : Int := 0

def geti (a : Array Int) (i : Int) : Int := if i < 0 then 0 else a.getD i.toNat 0

/-- one entry of the parse stack: state and semantic value -/
structure Entry where
  state : Int
  val : LTree
deriving Inhabited

def stackVal (st : List Entry) (k : Nat) : LTree := (st.getD k default).val

def applyOps (st : List Entry) (ops : List Op) (kind : Int) (t : List B) (o : Nat) (cs : List LTree) : LTree :=
  .node kind t o (ops.foldl (fun acc op =>
    match op with
    | .append k => acc ++ [stackVal st k]
    | .appendChildren k => acc ++ (stackVal st k).children
    | .appendUnwrapSingle k anyKind =>
      let v := stackVal st k
      match v.children with
      | [c] => if c.kind != anyKind then acc ++ [c] else acc ++ [v]
      | _ => acc ++ [v]) cs)

/-- run the action of a rule: the new value and, for the start rules, the parse result -/
def runAct (g : Grammar) (st : List Entry) (a : Act) : Option (LTree × Option LTree) :=
  match a with
  | .noValue => some (.none, none)
  | .move k => some (stackVal st k, none)
  | .moveUnwrapSingle k anyKind =>
    let v := stackVal st k
    match v.children with
    | [c] => if c.kind != anyKind then some (c, none) else some (v, none)
    | _ => some (v, none)
  | .mk kind tokFrom ops =>
    let (t, o) := match tokFrom with
      | some k => (stackVal st k).tokText
      | none => ([], 0)
    some (applyOps st ops kind t o [], none)
  | .moveAppend k ops =>
    match stackVal st k with
    | .node kind t o cs => some (applyOps st ops kind t o cs, none)
    | _ => none
  | .result ops => some (.none, some (applyOps st ops g.naKind [] 0 []))
  | .unknown => none

/-- `yy_lr_goto_state_` -/
def gotoState (t : Tables) (state : Int) (sym : Int) : Int :=
  let r := geti t.pgoto (sym - t.ntokens) + state
  if 0 ≤ r && r ≤ t.last && geti t.check r == state then geti t.table r else geti t.defgoto (sym - t.ntokens)

inductive Outcome where
  | accept (result : LTree)
  | reject
  | fuel
deriving Repr

/-- the `parse()` loop: `toks` are the remaining tokens (symbol number, text, offset), the last one is the end-of-file
    token and is never consumed; `la` is the look-ahead already read -/
def run (g : Grammar) : Nat → List Entry → List (Nat × List B × Nat) → Option LTree → Outcome
  | 0, _, _, _ => .fuel
  | f + 1, st, toks, res =>
    match st with
    | [] => .reject
    | top :: _ =>
      if top.state == g.t.final then .accept (res.getD .none) else
      let reduce (n : Int) : Outcome :=
        if n ≤ 0 then .reject else
        let len := (geti g.t.r2 n).toNat
        let lhs := geti g.t.r1 n
        match runAct g st (g.acts.getD n.toNat .unknown) with
        | none => .reject
        | some (v, r) =>
          let below := st.drop len
          match below with
          | [] => .reject
          | b :: _ => run g f ({ state := gotoState g.t b.state lhs, val := v } :: below) toks (match r with | some x => some x | none => res)
      let pn := geti g.t.pact top.state
      if pn == g.t.pactNinf then reduce (geti g.t.defact top.state) else
      match toks with
      | [] => .reject
      | (sym, text, off) :: rest =>
        let n := pn + sym
        if n < 0 || g.t.last < n || geti g.t.check n != (sym : Int) then reduce (geti g.t.defact top.state) else
        let a := geti g.t.table n
        if a ≤ 0 then (if a == g.t.tableNinf then .reject else reduce (-a))
        else
          -- shift; the end-of-file token stays available as look-ahead
          run g f ({ state := a, val := .tok sym text off } :: st) (if rest.isEmpty then toks else rest) res

/-- parse a token list that ends with the end-of-file (or an invalid) token -/
def parse (g : Grammar) (toks : List (Nat × List B × Nat)) : Option LTree :=
  match run g (40 * toks.length + 64) [{ state := 0, val := .none }] toks none with
  | .accept r => some r
  | _ => none

end Sqf.LR
