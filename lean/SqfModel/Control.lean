import SqfModel.VM.Sched
/-!
# Model of the execution control (`runtime::execute(action)`, `src/runtime/runtime.cpp`)

Two layers.

* **Sequential layer** (`exec`): one controlling thread issues the actions one after another on a runtime
  that steps one script context; scripts it spawns meanwhile wait in `m.spawned` (the tail of `m_contexts`) until a
  `start` schedules them or an `abort` discards them. Instruction execution is that of the VM model (`VM.step` =
  `execute_do(runtime, 1)`); the line of the next instruction is a parameter `lineOf` (the VM model does
  not carry source positions; the correspondence check instantiates it for programs laid out one
  statement per line).
* **Concurrent layer** (`Conc`): an executing thread inside `execute(start)` interleaved with a
  controlling thread issuing `stop`/`abort`, as a transition system over atomic steps (the compare-exchange
  on `m_run_atomic`, the per-iteration test of the exit request, one instruction, the final state mapping
  and release). Instructions are abstracted to a count.
-/
namespace Sqf.Ctl
open Sqf Sqf.VM

inductive Action where
  | start | stop | abort | assemblyStep | lineStep | leaveScope
  deriving DecidableEq, Repr

/-- `runtime::result` -/
inductive Res where
  | invalid | empty | ok | actionError | runtimeError
  deriving DecidableEq, Repr

/-- `runtime::state` as visible between two actions of one thread (`running` only exists while an action
    executes; `evaluating` belongs to `evaluate_expression`, outside this model) -/
abbrev CState := RunState

/-- the runtime as the controller sees it: the script context (if any) and the machine -/
structure Rt where
  ctx : Option Ctx := none
  m : M := {}
  state : CState := .empty

def resOf : StepRes → Res
  | .ok => .ok
  | .empty => .empty
  | .runtimeError => .runtimeError
  | .hang => .invalid
  | .crash => .invalid

/-- the end-of-action state mapping shared by start / assembly_step / line_step / leave_scope -/
def stateOf : StepRes → CState
  | .empty => .empty
  | .ok => .halted
  | _ => .haltedError

/-- the tail of every executing action: map the result to a state; an exit request (`exit__`, time limit)
    discards all contexts and leaves the VM empty -/
def finish (r : Rt) (c : Option Ctx) (m : M) (res : StepRes) : Rt × Res :=
  if m.exitReq then ({ ctx := none, m := { m with spawned := [] }, state := .empty }, resOf res)
  else ({ ctx := c, m := m, state := stateOf res }, resOf res)

/-- `execute_do(*this, 1)` on the script context; the machine's scratch context is loaded and stored back -/
def doOne (c : Ctx) (m : M) : Ctx × M × StepRes :=
  let o := step 200000 { m with ctx := c }
  (o.1.ctx, o.1, o.2)

/-- the head every executing action shares: requests cleared, time budget restarted (one clock read) -/
def begin (m : M) : M := { m.readClock.2 with runStart := m.readClock.1, exitReq := false }

/-- `action::assembly_step` -/
def assemblyStep (r : Rt) : Rt × Res :=
  match r.ctx with
  | none => finish r none (begin r.m) .empty
  | some c =>
    let o := doOne c (begin r.m)
    finish r (some o.1) o.2.1 o.2.2

/-- does `line_step` keep going? `ln` is the line the step started on (unknown while no instruction could
    be peeked), `next` the line of the instruction that would execute next -/
def sameLine (ln next : Option Nat) : Bool :=
  match ln, next with
  | some l, some l' => l == l'
  | _, _ => true

/-- the loop of `action::line_step`: execute instructions while the next one is on line `ln` -/
def lineLoop (lineOf : Ctx → Option Nat) (ln : Option Nat) : Nat → Ctx → M → Ctx × M × StepRes
  | 0, c, m => (c, m, .hang)
  | fuel + 1, c, m =>
    if (doOne c m).2.2 ≠ .ok then doOne c m
    else if (doOne c m).2.1.exitReq then doOne c m
    else if sameLine ln (lineOf (doOne c m).1) then
      lineLoop lineOf (if ln.isNone then lineOf (doOne c m).1 else ln) fuel (doOne c m).1 (doOne c m).2.1
    else doOne c m

/-- `action::line_step` -/
def lineStep (lineOf : Ctx → Option Nat) (r : Rt) (fuel : Nat := 100000) : Rt × Res :=
  match r.ctx with
  | none => finish r none (begin r.m) .empty
  | some c =>
    let o := lineLoop lineOf (lineOf c) fuel c (begin r.m)
    finish r (some o.1) o.2.1 o.2.2

/-- the loop of `action::leave_scope`: execute until the frame stack is lower than `depth` frames -/
def leaveLoop (depth : Nat) : Nat → Ctx → M → Ctx × M × StepRes
  | 0, c, m => (c, m, .hang)
  | fuel + 1, c, m =>
    if (doOne c m).2.2 ≠ .ok then doOne c m
    else if (doOne c m).2.1.exitReq then doOne c m
    else if (doOne c m).1.frames.length ≤ depth then doOne c m
    else leaveLoop depth fuel (doOne c m).1 (doOne c m).2.1

/-- `action::leave_scope`: `scopeNum = frames_size() - 1` -/
def leaveScope (r : Rt) (fuel : Nat := 100000) : Rt × Res :=
  match r.ctx with
  | none => finish r none (begin r.m) .empty
  | some c =>
    let o := leaveLoop (c.frames.length - 1) fuel c (begin r.m)
    finish r (some o.1) o.2.1 o.2.2

/-- `action::start`: the scheduler over the one context (and whatever it spawns) -/
def startAct (r : Rt) (fuel : Nat := 1000000) : Rt × Res :=
  match r.ctx with
  | none => finish r none (begin r.m) .empty
  | some c =>
    -- the scripts spawned while the VM was stepped stand behind the stepped one in `m_contexts`
    let s := VM.start 150 fuel { ctxs := c :: r.m.spawned, m := { r.m with spawned := [] } }
    -- a run that ends in an error keeps its scripts: the failed one is stepped on, the others wait behind it
    ({ ctx := s.rt.ctxs.head?, m := { s.rt.m with spawned := s.rt.ctxs.drop 1 ++ s.rt.m.spawned }, state := s.state }, resOf s.res)

/-- `action::abort` issued while nothing executes -/
def abortAct (r : Rt) : Rt × Res :=
  match r.state with
  | .halted | .haltedError => ({ r with ctx := none, m := { r.m with spawned := [] }, state := .empty }, .ok)
  | .empty => (r, .actionError)

/-- `runtime::execute(action)` as one thread sees it -/
def exec (lineOf : Ctx → Option Nat) (r : Rt) : Action → Rt × Res
  | .start => startAct r
  | .stop => (r, .actionError)          -- nothing is running: `m_state != state::running`
  | .abort => abortAct r
  | .assemblyStep => assemblyStep r
  | .lineStep => lineStep lineOf r
  | .leaveScope => leaveScope r

/-! ## Control actions issued at an exact instruction boundary

The executing thread is inside `execute(start)`; right before the `(k+1)`-th instruction of the run a
controller issues actions. `stop` and `abort` find the VM running with the run flag held: they store the
exit request and return `ok`. Every executing action finds the flag held: its compare-exchange fails,
it returns `action_error` and changes nothing. The instruction that was about to execute still executes;
the loop then sees the request, the run ends with `ok`, all contexts are discarded and the VM is empty. -/

/-- `k` instructions of the script context -/
def runK : Nat → Ctx → M → Ctx × M × StepRes
  | 0, c, m => (c, m, .ok)
  | k + 1, c, m =>
    if (doOne c m).2.2 ≠ .ok then doOne c m
    else runK k (doOne c m).1 (doOne c m).2.1

/-- result of a control action issued while another thread executes -/
def whileRunning : Action → Res
  | .stop | .abort => .ok
  | _ => .actionError

/-- does the action sequence contain an accepted stop or abort? -/
def requestsExit (acts : List Action) : Bool := acts.any (fun a => a == .stop || a == .abort)

/-- `execute(start)` with the controller's actions issued right before instruction `k + 1` -/
def startInjected (r : Rt) (k : Nat) (acts : List Action) (fuel : Nat := 1000000) : Rt × Res × List Res :=
  match r.ctx with
  | none => ((finish r none (begin r.m) .empty).1, (finish r none (begin r.m) .empty).2, [])
  | some c =>
    let a := runK k c (begin r.m)
    if a.2.2 ≠ .ok then
      -- the run ended (or failed) before the boundary was reached: the controller never got its turn;
      -- a finished context is erased by the scheduler
      ((finish r (if a.2.2 == .empty then none else some a.1) a.2.1 a.2.2).1, resOf a.2.2, [])
    else
      let o := doOne a.1 a.2.1
      if o.2.2 == .empty then ((finish r none o.2.1 .empty).1, .empty, [])
      else
        let results := acts.map whileRunning
        if o.2.2 ≠ .ok then
          -- the late instruction failed: the result is the error, an accepted request still empties the VM
          ((finish r (some o.1) { o.2.1 with exitReq := o.2.1.exitReq || requestsExit acts } o.2.2).1, resOf o.2.2, results)
        else if requestsExit acts then
          -- one late instruction has executed; the loop head sees the request
          ({ ctx := none, m := { o.2.1 with exitReq := true }, state := .empty }, .ok, results)
        else
          let s := VM.sched 150 fuel [o.1] 0 o.2.1 .ok
          ({ ctx := s.rt.ctxs.head?, m := s.rt.m, state := s.state }, resOf s.res, results)

/-! ## Control actions issued at an instruction boundary of a stepping action

The same controller, but the executing thread is inside an assembly step, a line step or a leave scope (one of a
history of such actions). `inj = some k`: the controller gets its turn right before the `(k+1)`-th instruction the
history executes from here on; `req`: its actions contain a stop or an abort (accepted: the VM runs and the run flag
is held). The instruction that was about to execute still executes; the request is seen afterwards. -/

/-- one instruction; the countdown and whether the controller had its turn -/
def doOneI (req : Bool) (inj : Option Nat) (c : Ctx) (m : M) : (Ctx × M × StepRes) × Option Nat × Bool :=
  match inj with
  | none => (doOne c m, none, false)
  | some 0 =>
    -- a context that is over executes nothing: the controller does not get its turn here
    if (doOne c m).2.2 == .empty then (doOne c m, some 0, false)
    else (((doOne c m).1, { (doOne c m).2.1 with exitReq := (doOne c m).2.1.exitReq || req }, (doOne c m).2.2), none, true)
  | some (k + 1) =>
    if (doOne c m).2.2 == .empty then (doOne c m, some (k + 1), false) else (doOne c m, some k, false)

/-- `lineLoop` with the controller -/
def lineLoopI (lineOf : Ctx → Option Nat) (req : Bool) (ln : Option Nat) :
    Nat → Option Nat → Bool → Ctx → M → (Ctx × M × StepRes) × Option Nat × Bool
  | 0, inj, fired, c, m => ((c, m, .hang), inj, fired)
  | fuel + 1, inj, fired, c, m =>
    let o := doOneI req inj c m
    if o.1.2.2 ≠ .ok then (o.1, o.2.1, fired || o.2.2)
    else if o.1.2.1.exitReq then (o.1, o.2.1, fired || o.2.2)
    else if sameLine ln (lineOf o.1.1) then
      lineLoopI lineOf req (if ln.isNone then lineOf o.1.1 else ln) fuel o.2.1 (fired || o.2.2) o.1.1 o.1.2.1
    else (o.1, o.2.1, fired || o.2.2)

/-- `leaveLoop` with the controller -/
def leaveLoopI (req : Bool) (depth : Nat) :
    Nat → Option Nat → Bool → Ctx → M → (Ctx × M × StepRes) × Option Nat × Bool
  | 0, inj, fired, c, m => ((c, m, .hang), inj, fired)
  | fuel + 1, inj, fired, c, m =>
    let o := doOneI req inj c m
    if o.1.2.2 ≠ .ok then (o.1, o.2.1, fired || o.2.2)
    else if o.1.2.1.exitReq then (o.1, o.2.1, fired || o.2.2)
    else if o.1.1.frames.length ≤ depth then (o.1, o.2.1, fired || o.2.2)
    else leaveLoopI req depth fuel o.2.1 (fired || o.2.2) o.1.1 o.1.2.1

/-- `runK` that also says how much of the countdown is left when the run ends early (a context that is over executes
    nothing; a failing instruction was executed) -/
def runKn : Nat → Ctx → M → (Ctx × M × StepRes) × Nat
  | 0, c, m => ((c, m, .ok), 0)
  | k + 1, c, m =>
    if (doOne c m).2.2 = .ok then runKn k (doOne c m).1 (doOne c m).2.1
    else if (doOne c m).2.2 = .empty then (doOne c m, k + 1)
    else (doOne c m, k)

/-- one action of a history with the controller waiting for its instruction boundary: the runtime, the result, the
    countdown that is left and whether the controller had its turn during this action. A `start` the controller
    interrupts is that of `startInjected`; `none`: outside the model (a start with spawned scripts waiting). -/
def execI (lineOf : Ctx → Option Nat) (req : Bool) (r : Rt) (inj : Option Nat) (fuel : Nat := 100000) :
    Action → Option ((Rt × Res) × Option Nat × Bool)
  | .start =>
    match inj with
    | none => some (startAct r, none, false)
    | some k =>
      match r.ctx with
      | none => some (finish r none (begin r.m) .empty, inj, false)
      | some c =>
        -- scripts spawned while the VM was stepped would be scheduled beside the stepped one: not covered here
        if !r.m.spawned.isEmpty then none
        else
          let a := runKn k c (begin r.m)
          if a.1.2.2 ≠ .ok then
            -- the run ended or failed before the boundary was reached (as in `startInjected`)
            some (((finish r (if a.1.2.2 == .empty then none else some a.1.1) a.1.2.1 a.1.2.2).1, resOf a.1.2.2), some a.2, false)
          else
            let o := doOne a.1.1 a.1.2.1
            if o.2.2 == .empty then some (((finish r none o.2.1 .empty).1, .empty), some 0, false)
            else if o.2.2 ≠ .ok then
              some (((finish r (some o.1) { o.2.1 with exitReq := o.2.1.exitReq || req } o.2.2).1, resOf o.2.2), none, true)
            else if req then
              some (({ ctx := none, m := { o.2.1 with exitReq := true, spawned := [] }, state := .empty }, .ok), none, true)
            else
              let s := VM.sched 150 1000000 [o.1] 0 o.2.1 .ok
              some (({ ctx := s.rt.ctxs.head?, m := s.rt.m, state := s.state }, resOf s.res), none, true)
  | .stop => some ((r, .actionError), inj, false)
  | .abort => some (abortAct r, inj, false)
  | .assemblyStep =>
    match r.ctx with
    | none => some (finish r none (begin r.m) .empty, inj, false)
    | some c =>
      let o := doOneI req inj c (begin r.m)
      some (finish r (some o.1.1) o.1.2.1 o.1.2.2, o.2.1, o.2.2)
  | .lineStep =>
    match r.ctx with
    | none => some (finish r none (begin r.m) .empty, inj, false)
    | some c =>
      let o := lineLoopI lineOf req (lineOf c) fuel inj false c (begin r.m)
      some (finish r (some o.1.1) o.1.2.1 o.1.2.2, o.2.1, o.2.2)
  | .leaveScope =>
    match r.ctx with
    | none => some (finish r none (begin r.m) .empty, inj, false)
    | some c =>
      let o := leaveLoopI req (c.frames.length - 1) fuel inj false c (begin r.m)
      some (finish r (some o.1.1) o.1.2.1 o.1.2.2, o.2.1, o.2.2)

/-! ## The concurrent layer -/

namespace Conc

/-- where an executing thread is inside `execute(start)` -/
inductive Pc where
  | idle          -- not inside execute()
  | entered       -- compare-exchange succeeded, flags reset, state = running
  | looping       -- in the scheduler loop, about to test the exit request (`execute_do`: first test of the loop)
  | fetched       -- the test found no request; one instruction is about to execute
  | finishing     -- left the loop, about to map the state and release
  deriving DecidableEq, Repr

/-- shared variables and the program counters of two threads that may call `execute(start)`;
    `todo` = instructions the script still has; `late` = instructions executed although the exit request
    was already stored -/
structure S where
  runAtomic : Bool := false
  exitReq : Bool := false
  running : Bool := false          -- m_state == running
  todo : Nat
  pc : Pc := .idle
  pc2 : Pc := .idle
  late : Nat := 0
  /-- exit requests stored by the controller since the executor entered -/
  stops : Nat := 0
  deriving Repr

/-- a thread is between its successful compare-exchange and its release of `m_run_atomic` -/
def inCs (p : Pc) : Bool := p != .idle

/-- atomic steps of the system -/
inductive Step : S → S → Prop
  -- thread 1
  | enter (s : S) : s.pc = .idle → s.runAtomic = false →
      Step s { s with runAtomic := true, exitReq := false, running := true, pc := .entered, late := 0, stops := 0 }
  | toLoop (s : S) : s.pc = .entered → Step s { s with pc := .looping }
  | seeExit (s : S) : s.pc = .looping → s.exitReq = true → Step s { s with pc := .finishing }
  | seeDone (s : S) : s.pc = .looping → s.exitReq = false → s.todo = 0 → Step s { s with pc := .finishing }
  | fetch (s : S) : s.pc = .looping → s.exitReq = false → s.todo ≠ 0 → Step s { s with pc := .fetched }
  | instr (s : S) : s.pc = .fetched →
      Step s { s with todo := s.todo - 1, pc := .looping, late := if s.exitReq then s.late + 1 else s.late }
  | leave (s : S) : s.pc = .finishing → Step s { s with runAtomic := false, running := false, pc := .idle }
  -- thread 2 (a competing execute(start))
  | enter2 (s : S) : s.pc2 = .idle → s.runAtomic = false →
      Step s { s with runAtomic := true, exitReq := false, running := true, pc2 := .entered, late := 0, stops := 0 }
  | toLoop2 (s : S) : s.pc2 = .entered → Step s { s with pc2 := .looping }
  | seeExit2 (s : S) : s.pc2 = .looping → s.exitReq = true → Step s { s with pc2 := .finishing }
  | seeDone2 (s : S) : s.pc2 = .looping → s.exitReq = false → s.todo = 0 → Step s { s with pc2 := .finishing }
  | fetch2 (s : S) : s.pc2 = .looping → s.exitReq = false → s.todo ≠ 0 → Step s { s with pc2 := .fetched }
  | instr2 (s : S) : s.pc2 = .fetched →
      Step s { s with todo := s.todo - 1, pc2 := .looping, late := if s.exitReq then s.late + 1 else s.late }
  | leave2 (s : S) : s.pc2 = .finishing → Step s { s with runAtomic := false, running := false, pc2 := .idle }
  -- the controller: `stop` / `abort` while the VM runs store the exit request (they return `ok`);
  -- otherwise they change nothing shared (`action_error`)
  | stopOk (s : S) : s.running = true → s.runAtomic = true → Step s { s with exitReq := true, stops := s.stops + 1 }
  -- a failed compare-exchange of a competing executing action changes nothing (`action_error`)
  | refused (s : S) : s.runAtomic = true → Step s s

/-- reachability -/
inductive Reach (s0 : S) : S → Prop
  | refl : Reach s0 s0
  | step (s t : S) : Reach s0 s → Step s t → Reach s0 t

end Conc

end Sqf.Ctl
