import SqfModel.LR
import SqfModel.Parse
import SqfModel.Compile
import SqfModel.CfgText
import SqfModel.Generated.SqfGrammar
import SqfModel.Generated.CfgGrammar
/-!
# The SQF and the config front end through the translated LALR tables

`parseLR` / `parseCfgLR` run the table driver of `LR.lean` on the tables and actions that `translators/lalr.py` read
out of the checked-in `parser.tab.cc` files, and convert the generic tree into the syntax trees of the hand-written
models (`Parse.lean`, `CfgText.lean`).  They are the *translated* counterparts of `Sqf.parse` and
`Sqf.CfgText.parseText`; the checks compare all three — implementation, translated tables, hand-written model the
theorems are about — on every generated input.
-/
namespace Sqf.LRFront
open Sqf Sqf.LR

def symOf (tnames : List String) (name : String) : Nat := (tnames.findIdx? (· == name)).getD 2   -- 2 = "$undefined"

def kindOf (kinds : List (String × Int)) (name : String) : Int :=
  match kinds.find? (fun p => p.1 == name) with
  | some p => p.2
  | none => -99

/-! ## SQF -/

def sqfSymName : PTok → String
  | .eof => "END_OF_FILE" | .invalid => "INVALID"
  | .tTrue => "\"true\"" | .tFalse => "\"false\"" | .tPrivate => "\"private\""
  | .curlyO => "\"{\"" | .curlyC => "\"}\"" | .roundO => "\"(\"" | .roundC => "\")\""
  | .squareO => "\"[\"" | .squareC => "\"]\"" | .semicolon => "\";\"" | .comma => "\",\"" | .equal => "\"=\""
  | .op cls lvl _ =>
    let c := match cls with | .b => "B" | .bu => "BU" | .bn => "BN" | .bun => "BUN"
    "OPERATOR_" ++ c ++ "_" ++ toString (lvl - 1)
  | .opU _ => "OPERATOR_U" | .opN _ => "OPERATOR_N" | .opUN _ => "OPERATOR_UN"
  | .ident _ => "IDENT" | .number _ => "NUMBER" | .hexnumber _ => "HEXNUMBER" | .string _ => "STRING"

def sqfText : PTok → List B
  | .op _ _ n => n | .opU n => n | .opN n => n | .opUN n => n
  | .ident n => n | .number n => n | .hexnumber n => n | .string n => n
  | .tPrivate => kwPrivate
  | _ => []

structure SqfKinds where
  statements : Int
  ident : Int
  number : Int
  hexnumber : Int
  string : Int
  btrue : Int
  bfalse : Int
  code : Int
  array : Int
  assignment : Int
  assignmentLocal : Int
  expn : Int
  exp0 : Int
  expu : Int

def sqfKinds : SqfKinds :=
  let k := kindOf Generated.SqfGrammar.kinds
  { statements := k "STATEMENTS", ident := k "IDENT", number := k "NUMBER", hexnumber := k "HEXNUMBER", string := k "STRING",
    btrue := k "BOOLEAN_TRUE", bfalse := k "BOOLEAN_FALSE", code := k "CODE", array := k "ARRAY", assignment := k "ASSIGNMENT",
    assignmentLocal := k "ASSIGNMENT_LOCAL", expn := k "EXPN", exp0 := k "EXP0", expu := k "EXPU" }

mutual
/-- an expression / statement node of the Bison tree as the model's `Ast` -/
partial def astOf (K : SqfKinds) : LTree → Option Ast
  | .node kind text _ cs =>
    if kind == K.ident then some (.leaf (.ident text))
    else if kind == K.number then some (.leaf (.num text))
    else if kind == K.hexnumber then some (.leaf (.hex text))
    else if kind == K.string then some (.leaf (.str text))
    else if kind == K.btrue then some (.leaf .tru)
    else if kind == K.bfalse then some (.leaf .fls)
    else if kind == K.expn then some (.leaf (.nular text))
    else if kind == K.expu then
      match cs with
      | [a] => (astOf K a).map (fun x => .unary text x)
      | _ => none
    else if K.exp0 ≤ kind && kind ≤ K.exp0 + 9 then
      match cs with
      | [l, r] =>
        match astOf K l, astOf K r with
        | some x, some y => some (.binary ((kind - K.exp0).toNat + 1) text x y)
        | _, _ => none
      | _ => none
    else if kind == K.array then (astsOf K cs).map .array
    else if kind == K.code then
      match cs with
      | [] => some (.code [])
      | [st] => (astsOf K st.children).map .code
      | _ => none
    else if kind == K.assignment then
      match cs with
      | [l, r] =>
        match astOf K l, astOf K r with
        | some x, some y => some (.assign x y)
        | _, _ => none
      | _ => none
    else if kind == K.assignmentLocal then
      match cs with
      | [e] => (astOf K e).map (fun x => .assignLocal text x)
      | _ => none
    else none
  | _ => none
partial def astsOf (K : SqfKinds) : List LTree → Option (List Ast)
  | [] => some []
  | x :: xs =>
    match astOf K x, astsOf K xs with
    | some a, some as => some (a :: as)
    | _, _ => none
end

/-- `parser::parse` up to code generation, through the translated tables -/
def parseLR (reg : Registry) (s : List B) : Option (List Ast) :=
  let toks := (ptoks reg s).map (fun t => (symOf Generated.SqfGrammar.tnames (sqfSymName t), sqfText t, 0))
  match LR.parse Generated.SqfGrammar.grammar toks with
  | none => none
  | some res =>
    match res.children with
    | [] => some []
    | [st] => astsOf sqfKinds st.children
    | _ => none

def assembleLR (reg : Registry) (s : List B) : Option (List Instr) := (parseLR reg s).map compileStmts

/-! ## config -/

open Sqf.CfgText in
def cfgSymName : CK → String
  | .eof => "END_OF_FILE" | .invalid => "INVALID"
  | .tClass => "\"class\"" | .tDelete => "\"delete\""
  | .curlyO => "\"{\"" | .curlyC => "\"}\"" | .edgeO => "\"[\"" | .edgeC => "\"]\""
  | .colon => "\":\"" | .semicolon => "\";\"" | .comma => "\",\"" | .plusEqual => "\"+=\"" | .equal => "\"=\""
  | .strD => "STRING" | .strS => "STRING" | .ident => "IDENT" | .number => "NUMBER" | .hex => "HEXNUMBER"
  | _ => "ANY"

structure CfgKinds where
  classDef : Int
  classDefExt : Int
  cls : Int
  clsExt : Int
  del : Int
  field : Int
  fieldArr : Int
  fieldArrAppend : Int
  dec : Int
  hex : Int
  str : Int
  ident : Int
  arr : Int
  anystring : Int
  any : Int

def cfgKinds : CfgKinds :=
  let k := kindOf Generated.CfgGrammar.kinds
  { classDef := k "CLASS_DEF", classDefExt := k "CLASS_DEF_EXT", cls := k "CLASS", clsExt := k "CLASS_EXT", del := k "DELETE_CLASS",
    field := k "FIELD", fieldArr := k "FIELD_ARRAY", fieldArrAppend := k "FIELD_ARRAY_APPEND", dec := k "NUMBER_DECIMAL",
    hex := k "NUMBER_HEXADECIMAL", str := k "STRING", ident := k "IDENT", arr := k "ARRAY", anystring := k "ANYSTRING", any := k "ANY" }

def slice (src : List B) (a b : Nat) : List B := (src.drop a).take (b - a)

mutual
partial def litOf (K : CfgKinds) (src : List B) : LTree → Option Cfg.Lit
  | .node kind text _ cs =>
    if kind == K.dec then some (.dec text)
    else if kind == K.hex then some (.hex text)
    else if kind == K.str then some (.str text)
    else if kind == K.ident || kind == K.any then some (.text text)
    else if kind == K.anystring then
      match cs.head?, cs.getLast? with
      | some f, some l => some (.text (slice src f.tokText.2 (l.tokText.2 + l.tokText.1.length)))
      | _, _ => none
    else if kind == K.arr then (litsOf K src cs).map .arr
    else none
  | _ => none
partial def litsOf (K : CfgKinds) (src : List B) : List LTree → Option (List Cfg.Lit)
  | [] => some []
  | x :: xs =>
    match litOf K src x, litsOf K src xs with
    | some a, some as => some (a :: as)
    | _, _ => none
end

def nameOf : LTree → List B
  | .node _ t _ _ => t
  | .tok _ t _ => t
  | .none => []

mutual
partial def nodeOf (K : CfgKinds) (src : List B) : LTree → Option Cfg.Node
  | .node kind _ _ cs =>
    if kind == K.classDef then
      match cs with | [n] => some (.classDef (nameOf n)) | _ => none
    else if kind == K.classDefExt then
      match cs with | [n, b] => some (.classDefExt (nameOf n) (nameOf b)) | _ => none
    else if kind == K.cls then
      match cs with | [n, body] => (nodesOf K src body.children).map (fun b => .cls (nameOf n) b) | _ => none
    else if kind == K.clsExt then
      match cs with | [n, b, body] => (nodesOf K src body.children).map (fun x => .clsExt (nameOf n) (nameOf b) x) | _ => none
    else if kind == K.del then
      match cs with | [n] => some (.del (nameOf n)) | _ => none
    else if kind == K.field then
      match cs with | [n, v] => (litOf K src v).map (fun l => .field (nameOf n) l) | _ => none
    else if kind == K.fieldArr then
      match cs with | [n, v] => (litOf K src v).map (fun l => .fieldArr (nameOf n) l) | _ => none
    else if kind == K.fieldArrAppend then
      match cs with | [n, v] => (litOf K src v).map (fun l => .fieldArrAppend (nameOf n) l) | _ => none
    else none
  | _ => none
partial def nodesOf (K : CfgKinds) (src : List B) : List LTree → Option (List Cfg.Node)
  | [] => some []
  | x :: xs =>
    match nodeOf K src x, nodesOf K src xs with
    | some a, some as => some (a :: as)
    | _, _ => none
end

/-- `parser::parse` of the config front end up to `apply_to_confighost`, through the translated tables -/
def parseCfgLR (s : List B) : Option (List Cfg.Node) :=
  let raws := (CfgText.lexText s).filter (fun r => !CfgText.isTrivia r.kind)
  if CfgText.tooDeep (CfgText.tokens s) 0 then none else
  let toks := raws.map (fun r => (symOf Generated.CfgGrammar.tnames (cfgSymName r.kind), r.text, r.off))
  match LR.parse Generated.CfgGrammar.grammar toks with
  | none => none
  | some res =>
    match res.children with
    | [] => some []
    | [st] => nodesOf cfgKinds s st.children
    | _ => none

end Sqf.LRFront
