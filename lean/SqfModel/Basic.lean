/-!
# Basic definitions shared by all models

Source text is a list of bytes; a byte is a `Nat` (< 256 by construction of the driver).  The models
never use `String`/`Char`: the implementation works on raw `char`s and so do we.
-/
namespace Sqf

/-- A byte of source text. -/
abbrev B := Nat
/-- A name / piece of text: list of bytes. -/
abbrev Name := List B

def isLowerAlpha (c : Nat) : Bool := decide (97 ≤ c) && decide (c ≤ 122)
def isUpperAlpha (c : Nat) : Bool := decide (65 ≤ c) && decide (c ≤ 90)
def isAlpha (c : Nat) : Bool := isLowerAlpha c || isUpperAlpha c
def isDigit (c : Nat) : Bool := decide (48 ≤ c) && decide (c ≤ 57)
/-- `std::tolower` in the C locale. -/
def toLower (c : Nat) : Nat := if isUpperAlpha c then c + 32 else c
def toUpper (c : Nat) : Nat := if isLowerAlpha c then c - 32 else c
def isIdentChar (c : Nat) : Bool := isAlpha c || isDigit c || c == 95
def isHexDigit (c : Nat) : Bool :=
  isDigit c || (decide (97 ≤ c) && decide (c ≤ 102)) || (decide (65 ≤ c) && decide (c ≤ 70))
/-- The four characters the SQF tokenizer treats as white space. -/
def isWs (c : Nat) : Bool := c == 32 || c == 10 || c == 13 || c == 9

def lower (n : Name) : Name := n.map toLower

/-- bytes of an ASCII string literal (used for keywords in the models and in the driver) -/
def bytes (s : String) : Name := s.toUTF8.toList.map (·.toNat)

/-- `n!"text"` : the bytes of an ASCII literal as an explicit list literal (kernel-reducible) -/
syntax:max "n!" str : term
open Lean in
macro_rules
  | `(n! $s:str) => do
    let bs := s.getString.toUTF8.toList.map (·.toNat)
    let lits := bs.map (fun b => Syntax.mkNumLit (toString b))
    `(([$(lits.toArray),*] : List Nat))

/-- keyword spellings as literal byte lists (kernel-reducible, unlike `bytes "…"`) -/
def kwFalse : Name := [102, 97, 108, 115, 101]
def kwTrue : Name := [116, 114, 117, 101]
def kwPrivate : Name := [112, 114, 105, 118, 97, 116, 101]
def kwLine : Name := [35, 108, 105, 110, 101]

def digitVal (c : Nat) : Nat := c - 48
def hexVal (c : Nat) : Nat :=
  if isDigit c then c - 48 else if decide (97 ≤ c) then c - 87 else c - 55

/-- value of a run of decimal digits -/
def natOfDigits (ds : List B) : Nat := ds.foldl (fun acc c => acc * 10 + digitVal c) 0
def natOfHex (ds : List B) : Nat := ds.foldl (fun acc c => acc * 16 + hexVal c) 0

/-- decimal digits of a positive number prepended to `acc` (fuel-free: recursion on `n / 10`) -/
def natDigitsGo (n : Nat) (acc : List B) : List B :=
  if h : n = 0 then acc else natDigitsGo (n / 10) ((48 + n % 10) :: acc)
termination_by n
decreasing_by omega

/-- decimal digits of a natural number, most significant first -/
def natDigits (n : Nat) : List B := if n = 0 then [48] else natDigitsGo n []

theorem toLower_idem (c : Nat) : toLower (toLower c) = toLower c := by
  simp only [toLower, isUpperAlpha, Bool.and_eq_true, decide_eq_true_eq]
  split
  · split <;> omega
  · rfl

theorem lower_idem (n : Name) : lower (lower n) = lower n := by
  simp [lower, List.map_map, Function.comp_def, toLower_idem]

end Sqf
