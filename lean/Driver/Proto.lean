import SqfModel
/-! Line protocol helpers of the model driver (same encoding as `harness/vh_common.h`). -/
namespace Driver
open Sqf

def hexVal (c : Char) : Nat :=
  let n := c.toNat
  if 48 ≤ n && n ≤ 57 then n - 48 else if 97 ≤ n && n ≤ 102 then n - 87 else if 65 ≤ n && n ≤ 70 then n - 55 else 0

def unhexChars : List Char → List Nat
  | a :: b :: r => (hexVal a * 16 + hexVal b) :: unhexChars r
  | _ => []

/-- a field: hex bytes, or "-" for the empty field -/
def unhex (s : String) : List Nat := if s == "-" then [] else unhexChars s.toList

def hexDigit (n : Nat) : Char := if n < 10 then Char.ofNat (48 + n) else Char.ofNat (87 + n)

/-- output escaping: printable ASCII except backslash stays, the rest becomes \xHH -/
def esc (bs : List Nat) : String :=
  String.ofList (bs.flatMap fun c =>
    if 32 ≤ c && c < 127 && c != 92 then [Char.ofNat c]
    else ['\\', 'x', hexDigit (c / 16), hexDigit (c % 16)])

def str (s : String) : List Nat := bytes s

def natStr (n : Nat) : List Nat := bytes (toString n)

end Driver
