import SqfModel
import SqfModel.Generated.Registry
import SqfModel.VM.Sched
import SqfModel.Config
import SqfModel.Api
import SqfModel.Control
import SqfModel.Pbo
import SqfModel.Vfs
import SqfModel.Preproc
import SqfModel.CfgText
import SqfModel.LRFront
import Driver.Proto
import Std.Data.HashMap
/-!
# `sqfmodel` — the model side of the correspondence check

Reads the same case file as the harness (`vh`) and prints, for every case, the observation the Lean
model predicts, in the same canonical text form.
-/
open Sqf Driver

def noInfo : OpInfo := { nular := false, unary := false, binary := none }

/-- the live registry (generated table) as a lookup function -/
def mkRealRegistry : Registry :=
  let m : Std.HashMap (List Nat) OpInfo :=
    Generated.regTable.foldl (fun m e =>
      m.insert e.name { nular := e.nular, unary := e.unary, binary := if e.first == 0 then none else some e.first }) {}
  fun n => (m.get? n).getD noInfo

/-- mirror of `register_synthetic` in the harness -/
def syntheticTable : List (List Nat × OpInfo) :=
  let lv := (List.range 10).map (· + 1)
  lv.flatMap (fun k =>
    [ (str s!"b{k}", { nular := false, unary := false, binary := some k }),
      (str s!"bu{k}", { nular := false, unary := true, binary := some k }),
      (str s!"bn{k}", { nular := true, unary := false, binary := some k }),
      (str s!"bun{k}", { nular := true, unary := true, binary := some k }) ]) ++
  [ (str "u", { nular := false, unary := true, binary := none }),
    (str "n", { nular := true, unary := false, binary := none }),
    (str "un", { nular := true, unary := true, binary := none }),
    (str "+", { nular := false, unary := true, binary := some 6 }),
    (str "-", { nular := false, unary := true, binary := some 6 }),
    (str "*", { nular := false, unary := false, binary := some 7 }),
    (str "||", { nular := false, unary := false, binary := some 1 }),
    (str "&&", { nular := false, unary := false, binary := some 2 }),
    (str "==", { nular := false, unary := false, binary := some 3 }),
    (str "#", { nular := false, unary := false, binary := some 9 }),
    (str "!", { nular := false, unary := true, binary := none }) ]

def mkSynRegistry : Registry :=
  let m : Std.HashMap (List Nat) OpInfo := syntheticTable.foldl (fun m (n, i) => m.insert n i) {}
  fun n => (m.get? n).getD noInfo

structure Env where
  real : Registry
  syn : Registry

def Env.reg (e : Env) (f : List (List Nat)) (idx : Nat) : Registry :=
  match f[idx]? with
  | some m => if m == str "syn" then e.syn else if m == str "none" then (fun _ => noInfo) else e.real
  | none => e.real

def verbAsm (e : Env) (f : List (List Nat)) : List Nat :=
  let text := f.headD []
  match assemble (e.reg f 1) text with
  | some is => str "ok " ++ renderInstrs is
  | none => str "parse-error"

/-- the same through the LALR tables translated from parser.tab.cc (`LRFront.lean`) -/
def verbAsmLR (e : Env) (f : List (List Nat)) : List Nat :=
  let text := f.headD []
  match Sqf.LRFront.assembleLR (e.reg f 1) text with
  | some is => str "ok " ++ renderInstrs is
  | none => str "parse-error"

/-- pretty <text>: the model of the CLI pretty printer applied to the model's parse of the text -/
def verbPretty (e : Env) (f : List (List Nat)) : List Nat :=
  let text := f.headD []
  match Sqf.parse e.real text with
  | some ss => if (Sqf.Pretty.prettyFile ss).isEmpty then str "empty" else str "ok " ++ Sqf.Pretty.prettyFile ss
  | none => str "parse-error"

/-- prettytie <text> (model only): do the bytes the pretty-printer model writes lex (tokenizer + yylex classification
    of the model) to the token sequence of its token-level view, and does the parser read them back as the tree? -/
def verbPrettyTie (e : Env) (f : List (List Nat)) : List Nat :=
  let text := f.headD []
  match Sqf.parse e.real text with
  | none => str "parse-error"
  | some ss =>
    let tk : Name → PTok := fun n => classify e.real (isAlpha (n.headD 0) || n.headD 0 == 95) n
    let prog := Sqf.Pretty.prettyProgram tk (Sqf.Pretty.normList ss)
    let toks := ptoks e.real (Sqf.Pretty.prettyFile ss)
    str "good=" ++ (if Sqf.Pretty.goodStmtsB tk (Sqf.Pretty.normList ss) then str "yes" else str "no") ++
    str " tokens=" ++ (if toks == prog.toks then str "agree" else str "differ") ++
    str " readback=" ++ (match parseToks toks with
      | some ss' => if (ss'.map (fun a => renderInstrs (Sqf.compile a))) == (ss.map (fun a => renderInstrs (Sqf.compile a))) then str "same" else str "other"
      | none => str "none")

def renderTok (t : Token) : List Nat :=
  natStr t.kind.toNat ++ str "@" ++ natStr t.line ++ str ":" ++ natStr t.col ++ str ":" ++ natStr t.off ++ str "+" ++ natStr t.text.length

def verbLex (f : List (List Nat)) : List Nat :=
  joinWith [32] ((lexText (f.headD [])).map renderTok)

def splitOn (sep : Nat) : List Nat → List (List Nat)
  | [] => [[]]
  | c :: cs =>
    match splitOn sep cs with
    | [] => [[]]
    | hd :: tl => if c == sep then [] :: hd :: tl else (c :: hd) :: tl

def natOfBytes (bs : List Nat) : Nat := natOfDigits bs

def verbRun (e : Env) (f : List (List Nat)) (trace : Bool) : List Nat :=
  let text := f.headD []
  let globals := match f[1]? with
    | some g => if g.isEmpty then [] else splitOn 44 g
    | none => []
  let maxSteps := match f[2]? with
    | some s => if s.isEmpty then 100000 else natOfBytes s
    | none => 100000
  match assemble e.real text with
  | none => str "parse-error"
  | some prog => VM.observe prog globals maxSteps trace (assemble e.real)

def verbStart (e : Env) (f : List (List Nat)) : List Nat :=
  let text := f.headD []
  let globals := match f[1]? with
    | some g => if g.isEmpty then [] else splitOn 44 g
    | none => []
  let maxRuntime := match f[2]? with
    | some s => if s.isEmpty then 0 else natOfBytes s
    | none => 0
  let maxLoops := match f[3]? with
    | some s => if s.isEmpty then 10000 else natOfBytes s
    | none => 10000
  let age := match f[4]? with
    | some s => if s.isEmpty then 0 else natOfBytes s
    | none => 0
  match assemble e.real text with
  | none => str "parse-error"
  | some prog => VM.observeStart prog globals maxRuntime maxLoops age (assemble e.real)

def verbEq (e : Env) (f : List (List Nat)) : List Nat :=
  match assemble e.real (f.headD []) with
  | none => str "parse-error"
  | some prog => VM.observeEq prog (assemble e.real)

/-! ### cfg: the config tree. Field 1 carries the AST of every load (the model does not parse config
text; the implementation's parser is tied to it through the results), field 2 the queries. -/
open Sqf.Cfg in
mutual
partial def parseLit : List (List Nat) → Option (Lit × List (List Nat))
  | [] => none
  | t :: rest =>
    if t == str "[" then
      match parseLits rest [] with
      | some (xs, r) => some (.arr xs, r)
      | none => none
    else match t with
      | 110 :: 58 :: hx => some (.dec (unhexChars (hx.map Char.ofNat)), rest)
      | 104 :: 58 :: hx => some (.hex (unhexChars (hx.map Char.ofNat)), rest)
      | 115 :: 58 :: hx => some (.str (unhexChars (hx.map Char.ofNat)), rest)
      | 116 :: 58 :: hx => some (.text (unhexChars (hx.map Char.ofNat)), rest)
      | _ => none
partial def parseLits : List (List Nat) → List Lit → Option (List Lit × List (List Nat))
  | [], _ => none
  | t :: rest, acc =>
    if t == str "]" then some (acc.reverse, rest)
    else match parseLit (t :: rest) with
      | some (l, r) => parseLits r (l :: acc)
      | none => none
end

def unhexBytes (hx : List Nat) : List Nat := unhexChars (hx.map Char.ofNat)

open Sqf.Cfg in
mutual
partial def parseNode : List (List Nat) → Option (Node × List (List Nat))
  | t :: a :: rest =>
    if t == str "c" then some (.classDef (unhexBytes a), rest)
    else if t == str "D" then some (.del (unhexBytes a), rest)
    else if t == str "x" then
      match rest with
      | b :: r => some (.classDefExt (unhexBytes a) (unhexBytes b), r)
      | [] => none
    else if t == str "k" then
      match rest with
      | _ :: r => (parseNodes r []).map (fun (ns, r') => (.cls (unhexBytes a) ns, r'))
      | [] => none
    else if t == str "e" then
      match rest with
      | b :: _ :: r => (parseNodes r []).map (fun (ns, r') => (.clsExt (unhexBytes a) (unhexBytes b) ns, r'))
      | _ => none
    else if t == str "f" then (parseLit rest).map (fun (l, r) => (.field (unhexBytes a) l, r))
    else if t == str "a" then (parseLit rest).map (fun (l, r) => (.fieldArr (unhexBytes a) l, r))
    else if t == str "p" then (parseLit rest).map (fun (l, r) => (.fieldArrAppend (unhexBytes a) l, r))
    else none
  | _ => none
/-- nodes up to the closing `}` (or the end of the tokens at top level) -/
partial def parseNodes : List (List Nat) → List Sqf.Cfg.Node → Option (List Sqf.Cfg.Node × List (List Nat))
  | [], acc => some (acc.reverse, [])
  | t :: rest, acc =>
    if t == str "}" then some (acc.reverse, rest)
    else match parseNode (t :: rest) with
      | some (n, r) => parseNodes r (n :: acc)
      | none => none
end

def intOfBytes (bs : List Nat) : Int :=
  match bs with
  | 45 :: r => - (natOfDigits r : Int)
  | r => (natOfDigits r : Int)

open Sqf.Cfg in
def parseQuery (q : List Nat) : Option (List Step × Obs) :=
  let parts := splitOn 44 q
  let rec go : List (List Nat) → List Step → Option (List Step × Obs)
    | [], _ => none
    | p :: rest, acc =>
      match p with
      | 100 :: 58 :: hx => go rest (.down (unhexBytes hx) :: acc)
      | 115 :: 58 :: n => go rest (.select (intOfBytes n) :: acc)
      | [105] => go rest (.inherits :: acc)
      | 111 :: 58 :: o =>
        let obs : Option Obs :=
          if o == str "num" then some .num else if o == str "text" then some .text else if o == str "arr" then some .arr
          else if o == str "isNum" then some .isNum else if o == str "isText" then some .isText else if o == str "isArr" then some .isArr
          else if o == str "isClass" then some .isClass else if o == str "isNull" then some .isNull else if o == str "name" then some .name
          else if o == str "count" then some .count else if o == str "hier" then some .hier else if o == str "classes" then some .classes
          else if o == str "self" then some .self else none
        obs.map (fun ob => (acc.reverse, ob))
      | _ => none
  go parts []

def renderCodes (cs : List Nat) : List Nat := joinWith [44] (cs.map natStr)

open Sqf.Cfg in
def verbCfg (f : List (List Nat)) : List Nat :=
  let astField := (f[1]?).getD []
  let loads := splitOn 124 astField          -- '|'
  let loads := if astField.isEmpty then [] else loads
  let (host, flags, diags) := loads.foldl (fun (acc : Host × List Nat × List Nat) l =>
    let toks := (splitOn 32 l).filter (fun t => !t.isEmpty)
    if toks == [str "!"] then (acc.1, acc.2.1 ++ [48], acc.2.2)      -- a text the parser rejects
    else match parseNodes toks [] with
    | some (ns, _) =>
      let (h1, d1) := load acc.1 ns
      (h1, acc.2.1 ++ [49], acc.2.2 ++ d1)
    | none => (acc.1, acc.2.1 ++ [63], acc.2.2)) (({} : Host), [], [])
  let queries := match f[2]? with
    | some q => if q.isEmpty then [] else splitOn 59 q
    | none => []
  let outs := queries.map (fun q =>
    match parseQuery q with
    | some (steps, obs) =>
      let (v, cs) := observeQ host steps obs
      v ++ str "|" ++ renderCodes (visible cs)
    | none => str "bad-query")
  str "load=" ++ flags ++ str "/" ++ renderCodes (visible diags) ++ (outs.foldl (fun acc o => acc ++ str " ; " ++ o) [])

/-! ### api: histories of C API calls -/

def containsSub (hay needle : List Nat) : Bool :=
  match hay with
  | [] => needle.isEmpty
  | _ :: rest => hay.take needle.length == needle || containsSub rest needle

/-- the preprocessor as far as the API histories exercise it -/
def dropSub (needle : List Nat) : Nat → List Nat → List Nat
  | 0, t => t
  | _, [] => []
  | f + 1, c :: r => if needle.isPrefixOf (c :: r) then dropSub needle f ((c :: r).drop needle.length) else c :: dropSub needle f r

/-- texts with an unknown directive are rejected; `__EVAL(<number>)` leaves `(<number>)`; every other generated text
    passes through unchanged (as far as the parser can tell) -/
def ppModel (t : List Nat) : Option (List Nat) :=
  if containsSub t (str "#bogus") then none
  else if t.contains 35 then
    -- a text with directives goes through the preprocessor model (a fresh macro table per call)
    match Sqf.Pp.run { files := [], root := str "/$R" } Sqf.Pp.builtins t with
    | .ok out => some out
    | .error _ => none
  else some (dropSub (str "__EVAL") (t.length + 1) t)

def renderInt (i : Int) : List Nat := if i < 0 then [45] ++ natStr i.natAbs else natStr i.toNat

def renderDeliveries (ds : List Sqf.Api.Delivery) : List Nat :=
  ds.flatMap (fun d => str "[" ++ renderInt d.level ++ str ":" ++ natStr d.user ++ str ":" ++ natStr d.call ++ str "]")

structure ApiState where
  insts : List (Option Sqf.Api.Inst) := [none, none, none, none]
  out : List (List Nat) := []

def verbApi (e : Env) (f : List (List Nat)) : List Nat :=
  let ops := (splitOn 10 (f.headD [])).filter (fun l => !l.isEmpty)
  let cfgAst : List Nat → Option (List Sqf.Cfg.Node) := fun ser =>
    let toks := (splitOn 32 ser).filter (fun t => !t.isEmpty)
    if toks == [str "!"] then none else (parseNodes toks []).map (·.1)
  let st := ops.foldl (fun (st : ApiState) line =>
    let t := splitOn 32 line
    let op := t.headD []
    let slot := (natOfBytes ((t[1]?).getD [])) % 4
    let cur := (st.insts[slot]?).getD none
    let seen := match cur with | some i => i.delivered.length | none => 0
    let emit (st : ApiState) (ni : Option Sqf.Api.Inst) (txt : List Nat) : ApiState :=
      let logs := match ni with | some i => renderDeliveries (i.delivered.drop seen) | none => []
      { insts := st.insts.set slot ni, out := st.out ++ [txt ++ logs] }
    if op == str "new" then
      let env : Sqf.Api.Env := { parse := assemble e.real, pp := ppModel, parseCfg := fun _ => none }
      emit st (some (Sqf.Api.create env (natOfBytes ((t[3]?).getD [])) (natOfBytes ((t[2]?).getD [])))) (str "ok")
    else if op == str "call" then
      match cur with
      | none => emit st none (str "rc=-1")
      | some i =>
        -- type 'a' (assembly text) is exercised with texts the assembly parser rejects only: `parseAsm` of the
        -- environment is the constant `none` (there is no model of the assembly front end)
        let env : Sqf.Api.Env := { parse := assemble e.real, pp := ppModel, parseCfg := fun _ => none }
        let ty := (((t[3]?).getD []).headD 0)
        let r := Sqf.Api.call env i (natOfBytes ((t[2]?).getD [])) ty (unhexBytes ((t[4]?).getD []))
        emit st (some r.1) (str "rc=" ++ renderInt r.2)
    else if op == str "cfg" then
      match cur with
      | none => emit st none (str "rc=-1")
      | some i =>
        let ast := unhexBytes ((t[3]?).getD [])
        let env : Sqf.Api.Env := { parse := assemble e.real, pp := ppModel, parseCfg := fun _ => cfgAst ast }
        let r := Sqf.Api.loadConfig env i (unhexBytes ((t[2]?).getD []))
        emit st (some r.1) (str "rc=" ++ renderInt r.2)
    else if op == str "status" then
      match cur with
      | none => emit st none (str "rc=-1")
      | some i => emit st (some i) (str "rc=" ++ renderInt (Sqf.Api.status i))
    else if op == str "del" then
      { insts := st.insts.set slot none, out := st.out ++ [str "ok"] }
    else if op == str "bad" then
      { st with out := st.out ++ [str "rc=-1"] }
    else { st with out := st.out ++ [str "bad-op"] }) ({} : ApiState)
  match st.out with
  | [] => []
  | o :: rest => rest.foldl (fun acc x => acc ++ str " ; " ++ x) o

/-! ### ctl: sequences of execute(action) on one VM -/

def ctlResName : Sqf.Ctl.Res → List Nat
  | .invalid => str "invalid" | .empty => str "empty" | .ok => str "ok"
  | .actionError => str "action_error" | .runtimeError => str "runtime_error"

/-- line of the next instruction for a program laid out with the given line of every top-level statement:
    the statement the bottom frame is in = number of `endStatement`s it has passed -/
def ctlLineOf (layout : List Nat) (c : Sqf.VM.Ctx) : Option Nat :=
  match c.frames with
  | [] => none
  | top :: _ =>
    if top.pc < top.code.length then
      match c.frames.getLast? with
      | some bottom =>
        let passed := ((bottom.code.take bottom.pc).filter (fun i => match i with | .endStatement => true | _ => false)).length
        layout[passed]?
      | none => none
    else none

def ctlPosition (layout : List Nat) (r : Sqf.Ctl.Rt) : List Nat :=
  match r.ctx with
  | none => str "L-:F0"
  | some c =>
    if c.frames.isEmpty then str "L-:F0"
    else str "L" ++ (match ctlLineOf layout c with | some l => natStr l | none => str "-") ++ str ":F" ++ natStr c.frames.length

def verbCtl (e : Env) (f : List (List Nat)) : List Nat :=
  let text := f.headD []
  let actions := (f[1]?).getD []
  let layout := match f[2]? with
    | some l => if l.isEmpty then [] else (splitOn 44 l).map natOfBytes
    | none => []
  let limit := natOfBytes ((f[3]?).getD [])
  let m0 : Sqf.VM.M := { parse := assemble e.real, maxRuntime := limit }
  let r0 : Option Sqf.Ctl.Rt :=
    if text == str "-" then some { m := m0 }
    else match assemble e.real text with
      | some prog => some { ctx := some { frames := [{ code := prog }], id := 1 }, m := m0 }
      | none => none
  match r0 with
  | none => str "parse-error"
  | some r0 =>
    let lineOf := ctlLineOf layout
    let (r, out) := actions.foldl (fun (acc : Sqf.Ctl.Rt × List Nat) a =>
      let act : Option Sqf.Ctl.Action :=
        if a == 83 then some .start else if a == 84 then some .stop else if a == 65 then some .abort
        else if a == 97 then some .assemblyStep else if a == 108 then some .lineStep else if a == 118 then some .leaveScope else none
      match act with
      | none =>
        if a == 87 then
          -- W: limit + 50 ms of virtual time pass while nothing executes
          let r' : Sqf.Ctl.Rt := { acc.1 with m := { acc.1.m with now := acc.1.m.now + limit + 50 } }
          (r', acc.2 ++ str " ; wait:" ++ Sqf.VM.stateName r'.state ++ str ":" ++ ctlPosition layout r')
        else (acc.1, acc.2 ++ str " ; bad-action")
      | some act =>
        let o := Sqf.Ctl.exec lineOf acc.1 act
        (o.1, acc.2 ++ str " ; " ++ ctlResName o.2 ++ str ":" ++ Sqf.VM.stateName o.1.state ++ str ":" ++ ctlPosition layout o.1))
      (r0, str "init:empty:" ++ ctlPosition layout r0)
    let tr := match Sqf.VM.varsGet (Sqf.VM.nsGet r.m.nss 0) (str "tr") with
      | some v => Sqf.VM.renderV r.m v
      | none => str "undef"
    out ++ str " | tr=" ++ tr

def ctlAction (a : Nat) : Option Sqf.Ctl.Action :=
  if a == 83 then some .start else if a == 84 then some .stop else if a == 65 then some .abort
  else if a == 97 then some .assemblyStep else if a == 108 then some .lineStep else if a == 118 then some .leaveScope else none

/-- ctl3 <program> <k> <actions>: execute(start) with the actions issued right before instruction k+1 -/
def verbCtl3 (e : Env) (f : List (List Nat)) : List Nat :=
  let text := f.headD []
  let k := natOfBytes ((f[1]?).getD [])
  let acts := ((f[2]?).getD []).filterMap ctlAction
  match assemble e.real text with
  | none => str "parse-error"
  | some prog =>
    let r0 : Sqf.Ctl.Rt := { ctx := some { frames := [{ code := prog }], id := 1 }, m := { parse := assemble e.real } }
    let o := Sqf.Ctl.startInjected r0 k acts
    let tr := match Sqf.VM.varsGet (Sqf.VM.nsGet o.1.m.nss 0) (str "tr") with
      | some v => Sqf.VM.renderV o.1.m v
      | none => str "undef"
    str "ctl=" ++ joinWith [44] (o.2.2.map ctlResName) ++ str " exec=" ++ ctlResName o.2.1 ++ str " state=" ++ Sqf.VM.stateName o.1.state ++
      str " contexts=" ++ natStr (match o.1.ctx with | some _ => 1 | none => 0) ++ str " | tr=" ++ tr

/-- ctl4 <program> <outer actions> <k> <injected actions> <layout>: a history of actions; right before the (k+1)-th
    instruction they execute altogether the injected actions are issued -/
def verbCtl4 (e : Env) (f : List (List Nat)) : List Nat :=
  let text := f.headD []
  let actions := ((f[1]?).getD []).filterMap ctlAction
  let k := natOfBytes ((f[2]?).getD [])
  let acts := ((f[3]?).getD []).filterMap ctlAction
  let layout := match f[4]? with
    | some l => if l.isEmpty then [] else (splitOn 44 l).map natOfBytes
    | none => []
  match assemble e.real text with
  | none => str "parse-error"
  | some prog =>
    let r0 : Sqf.Ctl.Rt := { ctx := some { frames := [{ code := prog }], id := 1 }, m := { parse := assemble e.real } }
    let lineOf := ctlLineOf layout
    let req := Sqf.Ctl.requestsExit acts
    -- state: runtime, countdown, output, index of the outer action, where the controller had its turn, still modelled
    let st := actions.foldl (fun (acc : Sqf.Ctl.Rt × Option Nat × List Nat × Nat × Option Nat × Bool) act =>
      let (r, inj, out, idx, met, good) := acc
      if !good then acc
      else match Sqf.Ctl.execI lineOf req r inj 100000 act with
        | none => (r, inj, out, idx, met, false)
        | some o =>
          (o.1.1, o.2.1, out ++ str " ; " ++ ctlResName o.1.2 ++ str ":" ++ Sqf.VM.stateName o.1.1.state ++ str ":" ++ ctlPosition layout o.1.1,
           idx + 1, (if o.2.2 then some idx else met), true))
      (r0, some k, str "init:empty:" ++ ctlPosition layout r0, 0, none, true)
    let (r, _, out, _, met, good) := st
    if !good then str "nomodel"
    else
      let tr := match Sqf.VM.varsGet (Sqf.VM.nsGet r.m.nss 0) (str "tr") with
        | some v => Sqf.VM.renderV r.m v
        | none => str "undef"
      out ++ str " | tr=" ++ tr ++ str " | ctl=" ++
        (match met with
         | some i => joinWith [44] (acts.map (fun a => ctlResName (Sqf.Ctl.whileRunning a))) ++ str "@" ++ natStr i
         | none => str "@-")

/-! ### pbo -/

def hexOf (bs : List Nat) : List Nat :=
  if bs.isEmpty then str "-" else bs.flatMap (fun c => [(hexDigit (c / 16)).toNat, (hexDigit (c % 16)).toNat])

/-- `is_invalid()`: a name (or key) made of question marks only marks a deleted header -/
def allQuestion (n : List Nat) : Bool := !n.isEmpty && n.all (· == 63)

def packingEnum (m : Nat) : Nat :=
  if m == 0x456e6372 then 1 else if m == 0x43707273 then 2 else if m == 0x56657273 then 3 else 0

def verbPbo (f : List (List Nat)) : List Nat :=
  let file := f.headD []
  if (f[1]?).getD [] == str "absent" then str "good=0"
  else match Sqf.Pbo.parse file with
  | none => str "good=0"
  | some a =>
    let props := a.props.filter (fun p => !allQuestion p.1)
    let files := a.entries.filter (fun en => !allQuestion en.name)
    let firstNamed (n : List Nat) : Option Sqf.Pbo.Entry := files.find? (fun en => en.name == n)
    str "good=1 props=" ++ props.flatMap (fun p => hexOf p.1 ++ str "=" ++ hexOf p.2 ++ str ";") ++
    str " files=" ++ files.flatMap (fun en => hexOf en.name ++ str ":" ++ natStr en.size ++ str ":" ++ natStr (packingEnum en.method) ++ str ";") ++
    str " data=" ++ files.flatMap (fun en => (match firstNamed en.name with
      | some en' => hexOf (Sqf.Pbo.entryBytes file en')
      | none => str "!") ++ str ";")

/-! ### vfs -/

def splitOn1 (bs : List Nat) : List (List Nat) := splitOn 1 bs
def splitOn2 (bs : List Nat) : List (List Nat) := splitOn 2 bs

def verbVfs (f : List (List Nat)) : List Nat :=
  let root := str "/$R"
  let files : List (List Nat) := match f[0]? with
    | some fs => if fs.isEmpty then [] else (splitOn1 fs).map (fun e => root ++ [47] ++ (splitOn2 e).headD [])
    | none => []
  let ms : List Sqf.Vfs.Mapping := match f[1]? with
    | some m => if m.isEmpty then [] else (splitOn1 m).map (fun e =>
        let kv := splitOn2 e
        let physrel := kv.headD []
        let virt := Sqf.Vfs.toSlashes ((kv[1]?).getD [])
        { virt := (Sqf.Vfs.splitSlash virt).filter (fun s => !s.isEmpty),
          phys := if physrel.isEmpty then root else root ++ [47] ++ physrel })
    | none => []
  let reqs := match f[2]? with
    | some r => if r.isEmpty then [] else splitOn1 r
    | none => []
  let outs := reqs.map (fun e =>
    let q := splitOn2 e
    let kind := q.headD []
    if kind == str "info" then
      match Sqf.Vfs.resolve ms files ((q[3]?).getD []) ((q[1]?).getD []) (if ((q[2]?).getD []).isEmpty then [] else root ++ [47] ++ (q[2]?).getD []) with
      | some i => str "P=" ++ i.physical ++ str "|V=" ++ i.virtual_
      | none => str "none"
    else str "~")
  match outs with
  | [] => []
  | o :: rest => rest.foldl (fun acc x => acc ++ str " ; " ++ x) o

/-! ### pp -/

def verbPp (f : List (List Nat)) : List Nat :=
  let text := (f[0]?).getD []
  let files : List (List Nat × List Nat) := match f[1]? with
    | some fs => if fs.isEmpty then [] else (splitOn1 fs).map (fun e =>
        let kv := splitOn2 e
        ([47] ++ kv.headD [], (kv[1]?).getD []))
    | none => []
  match Sqf.Pp.run { files := files, root := str "/$R" } Sqf.Pp.builtins text with
  | .ok out => str "ok " ++ hexOf out
  | .error c => str "fail " ++ natStr c

/-! ### diag -/

def sigToks (ts : List Sqf.Token) : List Sqf.Token :=
  ts.filter (fun t => t.kind != .whitespace && t.kind != .mLine && t.kind != .commentLine && t.kind != .commentBlock)

def posOf (t : Sqf.Token) : List Nat := natStr t.line ++ [58] ++ natStr t.col ++ [58] ++ t.file

/-- first token `t` (with its successor `n` and predecessor `p`) that satisfies `q p t n` -/
def findTok (q : Option Sqf.Token → Sqf.Token → Option Sqf.Token → Bool) : Option Sqf.Token → List Sqf.Token → Option Sqf.Token
  | _, [] => none
  | p, t :: rest => if q p t rest.head? then some t else findTok q (some t) rest

/-- the reference expander followed by the tokenizer model: where does the fault token of the case stand? -/
def verbDiag (f : List (List Nat)) : List Nat :=
  let text := (f[0]?).getD []
  let files : List (List Nat × List Nat) := match f[1]? with
    | some fs => if fs.isEmpty then [] else (splitOn1 fs).map (fun e =>
        let kv := splitOn2 e
        ([47] ++ kv.headD [], (kv[1]?).getD []))
    | none => []
  let kind := (f[3]?).getD []
  let phys := str "/$R/main.sqf"
  let pre : Except Nat (List Nat) :=
    if (f[2]?).getD [] == str "raw" then .ok text else Sqf.Pp.run { files := files, root := str "/$R" } Sqf.Pp.builtins text
  match pre with
  | .error c => str "pp-fail " ++ natStr c
  | .ok out =>
    let toks := sigToks (Sqf.lexAll (out.length + 1) (Sqf.LState.init out phys))
    let isPlusA := fun (_ : Option Sqf.Token) (t : Sqf.Token) (n : Option Sqf.Token) =>
      t.kind == .operator && t.text == [43] && (match n with | some x => x.kind == .stringDouble && x.text == [34, 97, 34] | none => false)
    if kind == str "undefined" then
      match findTok (fun _ t _ => t.kind == .ident && t.text.take 6 == str "FAULT_") none toks with
      | some t => posOf t
      | none => str "no-token"
    else if kind == str "runtime" || kind == str "trace" then
      match findTok isPlusA none toks with
      | some t => posOf t
      | none => str "no-token"
    else if kind == str "parse" then
      match findTok (fun p t _ => t.kind == .semicolon && (match p with | some x => x.kind == .operator && x.text == [43] | none => false)) none toks with
      | some t => posOf t
      | none => str "no-token"
    else if kind == str "line" then
      -- gl = [ <number or string> , <number or string> ]
      let rec go : List Sqf.Token → List Nat
        | a :: b :: c :: d :: e :: g :: rest =>
          if a.kind == .ident && a.text == str "gl" && b.kind == .equal && c.kind == .edgeO && (d.kind == .number || d.kind == .stringDouble)
              && e.kind == .comma && (g.kind == .number || g.kind == .stringDouble)
          then str "gl=[" ++ d.text ++ [44] ++ g.text ++ [93] else go (b :: c :: d :: e :: g :: rest)
        | _ => str "no-token"
      go toks
    else str "bad-kind"

/-! ### cfglex / cfgast: the config text front end (`SqfModel/CfgText.lean`) -/

def renderCfgTok (t : Sqf.CfgText.RawTok) : List Nat :=
  natStr t.kind.toNat ++ str "@" ++ natStr t.line ++ str ":" ++ natStr t.col ++ str ":" ++ natStr t.off ++ str "+" ++ natStr t.text.length

def verbCfgLex (f : List (List Nat)) : List Nat :=
  joinWith [32] ((Sqf.CfgText.lexText (f.headD [])).map renderCfgTok)

partial def renderCfgLit : Sqf.Cfg.Lit → List Nat
  | .dec t => str "n:" ++ hexOf t
  | .hex t => str "h:" ++ hexOf t
  | .str t => str "s:" ++ hexOf t
  | .text t => str "t:" ++ hexOf t
  | .arr xs => str "[" ++ joinWith [44] (xs.map renderCfgLit) ++ str "]"

partial def renderCfgNode : Sqf.Cfg.Node → List Nat
  | .classDef n => str "C(" ++ hexOf n ++ str ")"
  | .classDefExt n b => str "X(" ++ hexOf n ++ str ":" ++ hexOf b ++ str ")"
  | .cls n body => str "K(" ++ hexOf n ++ str "){" ++ joinWith [32] (body.map renderCfgNode) ++ str "}"
  | .clsExt n b body => str "E(" ++ hexOf n ++ str ":" ++ hexOf b ++ str "){" ++ joinWith [32] (body.map renderCfgNode) ++ str "}"
  | .del n => str "D(" ++ hexOf n ++ str ")"
  | .field n v => str "F(" ++ hexOf n ++ str "=" ++ renderCfgLit v ++ str ")"
  | .fieldArr n v => str "A(" ++ hexOf n ++ str "=" ++ renderCfgLit v ++ str ")"
  | .fieldArrAppend n v => str "P(" ++ hexOf n ++ str "=" ++ renderCfgLit v ++ str ")"

def verbCfgAst (f : List (List Nat)) : List Nat :=
  match Sqf.CfgText.parseText (f.headD []) with
  | none => str "fail"
  | some ns => if ns.isEmpty then str "ok" else str "ok " ++ joinWith [32] (ns.map renderCfgNode)

def verbCfgAstLR (f : List (List Nat)) : List Nat :=
  match Sqf.LRFront.parseCfgLR (f.headD []) with
  | none => str "fail"
  | some ns => if ns.isEmpty then str "ok" else str "ok " ++ joinWith [32] (ns.map renderCfgNode)

def handle (e : Env) (verb : String) (f : List (List Nat)) : List Nat :=
  if verb == "asm" then verbAsm e f
  else if verb == "lex" then verbLex f
  else if verb == "run" then verbRun e f false
  else if verb == "trace" then verbRun e f true
  else if verb == "start" then verbStart e f
  else if verb == "eq" then verbEq e f
  else if verb == "cfg" then verbCfg f
  else if verb == "api" then verbApi e f
  else if verb == "ctl" then verbCtl e f
  else if verb == "ctl3" then verbCtl3 e f
  else if verb == "ctl4" then verbCtl4 e f
  else if verb == "pretty" then verbPretty e f
  else if verb == "prettytie" then verbPrettyTie e f
  else if verb == "pbo" then verbPbo f
  else if verb == "vfs" then verbVfs f
  else if verb == "pp" then verbPp f
  else if verb == "diag" then verbDiag f
  else if verb == "cfglex" then verbCfgLex f
  else if verb == "cfgast" then verbCfgAst f
  else if verb == "cfgastlr" then verbCfgAstLR f
  else if verb == "asmlr" then verbAsmLR e f
  else str "bad-verb"

partial def loop (e : Env) (h : IO.FS.Stream) (out : IO.FS.Stream) : IO Unit := do
  let line ← h.getLine
  if line.isEmpty then return ()
  let parts := (line.trimAscii.toString.splitOn " ").filter (· != "")
  match parts with
  | verb :: id :: fields =>
    let f := fields.map unhex
    out.putStrLn (id ++ " " ++ esc (handle e verb f))
  | _ => pure ()
  loop e h out

def main : IO Unit := do
  let e : Env := { real := mkRealRegistry, syn := mkSynRegistry }
  loop e (← IO.getStdin) (← IO.getStdout)
