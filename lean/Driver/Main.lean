import SqfModel
import SqfModel.Generated.Registry
import SqfModel.VM.Sched
import Driver.Proto
import Std.Data.HashMap
/-!
# `sqfmodel` — the model side of the correspondence check

Reads the same case file as the harness (`vh`) and prints, for every case, the observation the Lean
model predicts, in the same canonical text form.
-/
open Sqf Driver

def noInfo : OpInfo := { nular := false, unary := false, binary := none }

/-- the live registry (generated table) as a lookup function -/
def mkRealRegistry : Registry :=
  let m : Std.HashMap (List Nat) OpInfo :=
    Generated.regTable.foldl (fun m e =>
      m.insert e.name { nular := e.nular, unary := e.unary, binary := if e.first == 0 then none else some e.first }) {}
  fun n => (m.get? n).getD noInfo

/-- mirror of `register_synthetic` in the harness -/
def syntheticTable : List (List Nat × OpInfo) :=
  let lv := (List.range 10).map (· + 1)
  lv.flatMap (fun k =>
    [ (str s!"b{k}", { nular := false, unary := false, binary := some k }),
      (str s!"bu{k}", { nular := false, unary := true, binary := some k }),
      (str s!"bn{k}", { nular := true, unary := false, binary := some k }),
      (str s!"bun{k}", { nular := true, unary := true, binary := some k }) ]) ++
  [ (str "u", { nular := false, unary := true, binary := none }),
    (str "n", { nular := true, unary := false, binary := none }),
    (str "un", { nular := true, unary := true, binary := none }),
    (str "+", { nular := false, unary := true, binary := some 6 }),
    (str "-", { nular := false, unary := true, binary := some 6 }),
    (str "*", { nular := false, unary := false, binary := some 7 }),
    (str "||", { nular := false, unary := false, binary := some 1 }),
    (str "&&", { nular := false, unary := false, binary := some 2 }),
    (str "==", { nular := false, unary := false, binary := some 3 }),
    (str "#", { nular := false, unary := false, binary := some 9 }),
    (str "!", { nular := false, unary := true, binary := none }) ]

def mkSynRegistry : Registry :=
  let m : Std.HashMap (List Nat) OpInfo := syntheticTable.foldl (fun m (n, i) => m.insert n i) {}
  fun n => (m.get? n).getD noInfo

structure Env where
  real : Registry
  syn : Registry

def Env.reg (e : Env) (f : List (List Nat)) (idx : Nat) : Registry :=
  match f[idx]? with
  | some m => if m == str "syn" then e.syn else if m == str "none" then (fun _ => noInfo) else e.real
  | none => e.real

def verbAsm (e : Env) (f : List (List Nat)) : List Nat :=
  let text := f.headD []
  match assemble (e.reg f 1) text with
  | some is => str "ok " ++ renderInstrs is
  | none => str "parse-error"

def renderTok (t : Token) : List Nat :=
  natStr t.kind.toNat ++ str "@" ++ natStr t.line ++ str ":" ++ natStr t.col ++ str ":" ++ natStr t.off ++ str "+" ++ natStr t.text.length

def verbLex (f : List (List Nat)) : List Nat :=
  joinWith [32] ((lexText (f.headD [])).map renderTok)

def splitOn (sep : Nat) : List Nat → List (List Nat)
  | [] => [[]]
  | c :: cs =>
    match splitOn sep cs with
    | [] => [[]]
    | hd :: tl => if c == sep then [] :: hd :: tl else (c :: hd) :: tl

def natOfBytes (bs : List Nat) : Nat := natOfDigits bs

def verbRun (e : Env) (f : List (List Nat)) (trace : Bool) : List Nat :=
  let text := f.headD []
  let globals := match f[1]? with
    | some g => if g.isEmpty then [] else splitOn 44 g
    | none => []
  let maxSteps := match f[2]? with
    | some s => if s.isEmpty then 100000 else natOfBytes s
    | none => 100000
  match assemble e.real text with
  | none => str "parse-error"
  | some prog => VM.observe prog globals maxSteps trace (assemble e.real)

def verbStart (e : Env) (f : List (List Nat)) : List Nat :=
  let text := f.headD []
  let globals := match f[1]? with
    | some g => if g.isEmpty then [] else splitOn 44 g
    | none => []
  let maxRuntime := match f[2]? with
    | some s => if s.isEmpty then 0 else natOfBytes s
    | none => 0
  let maxLoops := match f[3]? with
    | some s => if s.isEmpty then 10000 else natOfBytes s
    | none => 10000
  let age := match f[4]? with
    | some s => if s.isEmpty then 0 else natOfBytes s
    | none => 0
  match assemble e.real text with
  | none => str "parse-error"
  | some prog => VM.observeStart prog globals maxRuntime maxLoops age (assemble e.real)

def verbEq (e : Env) (f : List (List Nat)) : List Nat :=
  match assemble e.real (f.headD []) with
  | none => str "parse-error"
  | some prog => VM.observeEq prog (assemble e.real)

def handle (e : Env) (verb : String) (f : List (List Nat)) : List Nat :=
  if verb == "asm" then verbAsm e f
  else if verb == "lex" then verbLex f
  else if verb == "run" then verbRun e f false
  else if verb == "trace" then verbRun e f true
  else if verb == "start" then verbStart e f
  else if verb == "eq" then verbEq e f
  else str "bad-verb"

partial def loop (e : Env) (h : IO.FS.Stream) (out : IO.FS.Stream) : IO Unit := do
  let line ← h.getLine
  if line.isEmpty then return ()
  let parts := (line.trimAscii.toString.splitOn " ").filter (· != "")
  match parts with
  | verb :: id :: fields =>
    let f := fields.map unhex
    out.putStrLn (id ++ " " ++ esc (handle e verb f))
  | _ => pure ()
  loop e h out

def main : IO Unit := do
  let e : Env := { real := mkRealRegistry, syn := mkSynRegistry }
  loop e (← IO.getStdin) (← IO.getStdout)
